"""E5 - the kind systems (abstract domains on top of absint.AbsInt)."""

import ast

from .absint import BOT, TOP, AbsInt, Frame, Tup
from .model import call_name, const_value, is_self_attr, kwarg

# ===================================================================== E5d: length provenance
# values: ('n', sym)   a count (symbolic parameter or literal)
#         ('len', sym) an array-like / table with `sym` rows
#         ('scalar',)  a number
SCALAR = ('scalar',)

# numpy.random functions: position of the size argument
NP_RANDOM_SIZE_POS = {
    'uniform': 2, 'normal': 2, 'random': 0, 'random_sample': 0, 'exponential': 1, 'randint': 2, 'beta': 2,
    'gamma': 2, 'standard_normal': 0, 'rand': 0, 'randn': 0, 'choice': 1, 'multivariate_normal': 2,
    'lognormal': 2, 'poisson': 1, 'binomial': 2, 'sample': 0, 'ranf': 0, 'laplace': 2, 'logistic': 2,
}
ALLOC_FUNCS = {'numpy.full': 0, 'numpy.zeros': 0, 'numpy.ones': 0, 'numpy.empty': 0, 'numpy.arange': 0}
ELEMENTWISE_FUNCS = {
    'numpy.log', 'numpy.exp', 'numpy.abs', 'numpy.sqrt', 'numpy.power', 'numpy.asarray', 'numpy.array',
    'numpy.nan_to_num', 'numpy.clip', 'numpy.minimum', 'numpy.maximum', 'numpy.sort', 'numpy.cumsum',
    'pandas.Series', 'scipy.stats.norm.cdf', 'scipy.stats.norm.ppf', 'scipy.stats.norm.pdf',
    'scipy.special.ndtr', 'numpy.logical_and', 'numpy.logical_or', 'numpy.where', 'numpy.square',
    'numpy.negative', 'numpy.sign', 'abs', 'numpy.log1p', 'numpy.expm1', 'numpy.isnan', 'numpy.copy',
}
ELEMENTWISE_METHODS = {
    'astype', 'clip', 'copy', 'to_numpy', 'abs', 'round', 'cumsum', 'rank', 'fillna', 'sort_values',
    'percent_point', 'ppf', 'cdf', 'cumulative_distribution', 'pdf', 'probability_density',
    'log_probability_density', 'reset_index', 'tolist', 'ravel', 'flatten',
}


class LenKind(AbsInt):
    COUNT_PARAMS = ('size', 'num_rows', 'n_samples', 'num_samples', 'n')

    def const(self, node, fr):
        v = getattr(node, 'value', None)
        if isinstance(v, bool) or v is None:
            return SCALAR
        if isinstance(v, int):
            return ('n', v)
        return SCALAR

    def param(self, name, fr):
        if name in fr.params:
            return fr.params[name]
        if name in self.COUNT_PARAMS:
            return ('n', name)
        return TOP

    def _as_count(self, v):
        if isinstance(v, tuple) and v and v[0] == 'n':
            return v[1]
        return None

    def join_distinct(self, a, b):
        # a scalar or a count literal joined with itself was handled by ==; anything else is unknown
        return TOP

    def _elementwise(self, vals):
        sym = None
        for v in vals:
            if v is TOP or v is BOT:
                return TOP
            if isinstance(v, tuple) and v[0] == 'len':
                v = v[:2]
                if sym is None:
                    sym = v[1]
                elif sym != v[1]:
                    return ('mismatch', sym, v[1])
            elif isinstance(v, tuple) and v[0] in ('n', 'scalar'):
                continue
            else:
                return TOP
        return ('len', sym) if sym is not None else SCALAR

    def binop(self, node, left, right, fr):
        if isinstance(left, tuple) and isinstance(right, tuple) and left[0] == 'n' and right[0] == 'n':
            return ('n', f'({left[1]} {type(node.op).__name__} {right[1]})')
        return self._elementwise([left, right])

    def unaryop(self, node, operand, fr):
        return self._elementwise([operand])

    def compare(self, node, fr):
        return self._elementwise([self.value(node.left, fr)] + [self.value(c, fr) for c in node.comparators])

    def subscript(self, node, base, fr):
        # selecting a column of a DataFrame by label keeps the number of rows
        if isinstance(base, tuple) and len(base) == 3 and base[0] == 'len' and base[2] == 'frame' \
                and isinstance(node.slice, (ast.Name, ast.Constant)) and not isinstance(getattr(node.slice, 'value', ''), int):
            return ('len', base[1])
        return TOP

    def attribute(self, node, base, fr):
        if node.attr == 'values':
            return base
        return TOP

    def dict_literal(self, node, fr):
        return Tup([self.value(v, fr) for v in node.values], 'dict')

    def external_call(self, name, node, fr):
        if name is None:
            return TOP
        leaf = name.split('.')[-1]
        if name.startswith('numpy.random.') and leaf in NP_RANDOM_SIZE_POS:
            sz = kwarg(node, 'size', NP_RANDOM_SIZE_POS[leaf])
            if sz is None:
                return SCALAR
            c = self._as_count(self.value(sz, fr))
            return ('len', c) if c is not None else TOP
        if leaf == 'rvs':
            sz = kwarg(node, 'size')
            if sz is None:
                return SCALAR
            c = self._as_count(self.value(sz, fr))
            return ('len', c) if c is not None else TOP
        if name in ALLOC_FUNCS:
            sz = kwarg(node, 'shape', ALLOC_FUNCS[name])
            if sz is None:
                return TOP
            c = self._as_count(self.value(sz, fr))
            return ('len', c) if c is not None else TOP
        if name == 'numpy.linspace':
            sz = kwarg(node, 'num', 2)
            c = self._as_count(self.value(sz, fr)) if sz is not None else None
            return ('len', c) if c is not None else TOP
        if name in ELEMENTWISE_FUNCS:
            args = [self.value(a, fr) for a in node.args]
            return self._elementwise(args) if args else TOP
        if name in ('numpy.column_stack', 'numpy.stack', 'numpy.vstack', 'numpy.hstack'):
            if node.args:
                v = self.value(node.args[0], fr)
                if isinstance(v, Tup) and name == 'numpy.column_stack':
                    return self._elementwise(v.elems)
            return TOP
        if name == 'pandas.DataFrame':
            data = kwarg(node, 'data', 0)
            if data is None:
                return TOP
            v = self.value(data, fr)
            if isinstance(v, Tup) and v.kind == 'dict':
                if not any(isinstance(e, tuple) and e[0] == 'len' for e in v.elems):
                    return TOP
                r = self._elementwise(v.elems)
                return ('len', r[1], 'frame') if isinstance(r, tuple) and r[0] == 'len' else r
            if isinstance(v, tuple) and v[0] == 'len':
                return ('len', v[1], 'frame')
            if isinstance(v, tuple) and v[0] == 'mismatch':
                return v
            return TOP
        if name == 'range':
            if len(node.args) == 1:
                c = self._as_count(self.value(node.args[0], fr))
                return ('len', c) if c is not None else TOP
            return TOP
        if name in ('len',):
            if node.args:
                v = self.value(node.args[0], fr)
                if isinstance(v, tuple) and v[0] == 'len':
                    return ('n', v[1])
                return ('n', 'len(' + ast.unparse(node.args[0]) + ')')
            return TOP
        return TOP

    def method_call(self, meth, node, recv, fr):
        if meth in ELEMENTWISE_METHODS:
            if meth in ('percent_point', 'ppf', 'cdf', 'cumulative_distribution', 'pdf', 'probability_density',
                        'log_probability_density'):
                return self._elementwise([self.value(a, fr) for a in node.args[:1]]) if node.args else TOP
            return recv if isinstance(recv, tuple) else TOP
        return None

    def project_call_override(self, g, node, fr):
        # model methods that are elementwise in their (first) argument
        gname = g.name[len('_constant_'):] if g.name.startswith('_constant_') else g.name
        if g.cls is not None and gname in ('percent_point', 'ppf', 'cdf', 'cumulative_distribution', 'pdf',
                                            'probability_density') and node.args:
            # univariate: one argument; bivariate percent_point(y, V): both
            return self._elementwise([self.value(a, fr) for a in node.args])
        return None

    def name(self, node, fr):
        v = super().name(node, fr)
        if v is TOP or v is BOT or (isinstance(v, Tup) and not v.elems):
            # list filled by exactly one append per iteration of `for _ in range(n)`
            acc = self._append_loop(node.id, node, fr)
            if acc is not None:
                return acc
        return v

    def _append_loop(self, nm, use, fr):
        binds = fr.bindings.get(nm, [])
        if len(binds) != 1 or binds[0].kind != 'assign' or not isinstance(binds[0].value, ast.List) \
                or binds[0].value.elts:
            return None
        appends = []
        from .model import walk_no_nested
        for n in walk_no_nested(fr.fn.node):
            if isinstance(n, ast.Call) and isinstance(n.func, ast.Attribute) and isinstance(n.func.value, ast.Name) \
                    and n.func.value.id == nm:
                if n.func.attr == 'append':
                    appends.append(n)
                else:
                    return None
        if len(appends) != 1:
            return None
        stmt = appends[0]._parent
        loop = getattr(stmt, '_parent', None)
        if not (isinstance(stmt, ast.Expr) and isinstance(loop, ast.For) and stmt in loop.body):
            return None
        # unconditional, no break/continue/return in the loop body
        for n in ast.walk(loop):
            if isinstance(n, (ast.Break, ast.Continue, ast.Return)):
                return None
        itv = self.value(loop.iter, fr)
        if isinstance(itv, tuple) and itv[0] == 'len' and not isinstance(getattr(loop, '_parent', None), (ast.For, ast.While)):
            return ('len', itv[1])
        return None

    def sequence(self, node, vals, fr):
        return Tup(vals, 'list' if isinstance(node, ast.List) else 'tuple')


def length_of_return(ctx, fn, concrete=None, params=None):
    lk = LenKind(ctx)
    fr = Frame(fn, params or {}, concrete)
    return lk.returns(fr), lk


# ========================================================================= E5a: space kinds
# 'X' data space, 'P' probability in [0,1], 'P0' probability strictly inside (0,1), 'Z' normal score,
# 'D' density, 'logD', 'dP' difference of probabilities, 'TAU', 'PVAL', 'KS', 'THETA', 'CORR', 'COV',
# 'N' count, ('num', v) numeric literal, 'EPS' / '1-EPS' the clipping constants, 'ZERO' vector of zeros
UNI_SIG = {  # univariate model methods: argument kind -> result kind
    'cdf': ('X', 'P'), 'cumulative_distribution': ('X', 'P'), 'percent_point': ('P', 'X'), 'ppf': ('P', 'X'),
    'pdf': ('X', 'D'), 'probability_density': ('X', 'D'), 'log_probability_density': ('X', 'logD'),
    'sample': ('N', 'X'),
}
BIV_SIG = {
    'cdf': ('P', 'P'), 'cumulative_distribution': ('P', 'P'), 'pdf': ('P', 'D'), 'probability_density': ('P', 'D'),
    'partial_derivative': ('P', 'P'), 'partial_derivative_scalar': ('P', 'P'), 'percent_point': ('P', 'P'),
    'ppf': ('P', 'P'), 'sample': ('N', 'P'), 'log_probability_density': ('P', 'logD'),
}
SCIPY_DIST_SIG = {'cdf': ('X', 'P'), 'pdf': ('X', 'D'), 'logpdf': ('X', 'logD'), 'ppf': ('P', 'X'), 'rvs': ('N', 'X'),
                  'sf': ('X', 'P'), 'logcdf': ('X', 'logP')}
PRESERVING_METHODS = {'to_numpy', 'copy', 'astype', 'reshape', 'ravel', 'flatten', 'tolist', 'squeeze', 'to_frame',
                      'transpose', 'item', 'reset_index'}
PRESERVING_FUNCS = {'numpy.array', 'numpy.asarray', 'numpy.column_stack', 'numpy.stack', 'numpy.vstack', 'numpy.hstack',
                    'numpy.concatenate', 'pandas.DataFrame', 'pandas.Series', 'numpy.ravel', 'numpy.squeeze',
                    'numpy.atleast_1d', 'numpy.atleast_2d', 'numpy.copy', 'numpy.sort', 'numpy.transpose'}


def is_prob(k):
    return k in ('P', 'P0')


class SpaceKind(AbsInt):
    """Kinds of numeric values.  Signature violations are collected in self.mismatches."""

    def __init__(self, ctx, hierarchy=None):
        super().__init__(ctx)
        self.mismatches = []  # (node, fn, message)
        self.hierarchy = hierarchy  # 'uni' | 'biv' hint for unresolved receivers
        self.self_kinds = {}  # attribute -> kind
        self.param_kinds = {}  # (function qualname, param) -> kind

    # ------------------------------------------------------------------ basics
    def const(self, node, fr):
        v = getattr(node, 'value', None)
        if isinstance(v, bool) or v is None or isinstance(v, str):
            return TOP
        if isinstance(v, (int, float)):
            return ('num', v)
        return TOP

    def param(self, name, fr):
        if name in fr.params:
            return fr.params[name]
        return self.param_kinds.get((fr.fn.qualname, name), TOP)

    def global_name(self, dotted, node, fr):
        if dotted == 'copulas.utils.EPSILON':
            return 'EPS'
        c = self.prog.constant(dotted)
        if c is not None and isinstance(c, ast.Constant):
            return self.const(c, fr)
        return TOP

    def self_attr(self, attr, node, fr):
        return self.self_kinds.get(attr, TOP)

    def join_distinct(self, a, b):
        if is_prob(a) and is_prob(b):
            return 'P'
        if isinstance(a, tuple) and isinstance(b, tuple) and a[0] == b[0] == 'num':
            return ('num', None)
        return TOP

    def binop(self, node, left, right, fr):
        op = node.op
        covlike = ('CORR', 'COV', 'COVINV')
        if isinstance(op, ast.MatMult) and (left in covlike or right in covlike):
            if left in covlike and right == 'Z':
                return 'Z'
            return 'COV'
        if isinstance(op, (ast.Sub, ast.Add)) and left in covlike and right in covlike:
            return 'COV'
        if isinstance(op, (ast.Sub, ast.Add)) and 'ZERO' in (left, right):
            return right if left == 'ZERO' else left
        if isinstance(op, ast.Sub):
            if isinstance(left, tuple) and left == ('num', 1) and right == 'EPS':
                return '1-EPS'
            if is_prob(left) and is_prob(right):
                return 'dP'
            if isinstance(left, tuple) and left[0] == 'num' and left[1] in (1, 1.0) and is_prob(right):
                return right  # 1 - p is a probability
        if isinstance(op, (ast.Mult, ast.Div, ast.Add, ast.Sub)):
            if isinstance(left, tuple) and left[0] == 'num' and isinstance(right, tuple) and right[0] == 'num':
                return ('num', None)
        return TOP

    def unaryop(self, node, operand, fr):
        if isinstance(operand, tuple) and operand[0] == 'num' and isinstance(node.op, ast.USub) \
                and isinstance(operand[1], (int, float)):
            return ('num', -operand[1])
        return TOP

    def subscript(self, node, base, fr):
        if isinstance(base, Tup):
            from .model import const_value
            i = const_value(node.slice)
            if isinstance(i, int) and -len(base.elems) <= i < len(base.elems):
                return base.elems[i]
            return TOP
        return base if isinstance(base, str) else TOP

    def attribute(self, node, base, fr):
        if node.attr in ('values', 'T', 'real', 'loc', 'iloc'):
            return base
        return TOP

    def iter_elem(self, val, node, fr):
        if isinstance(val, Tup):
            if val.kind == 'zip':
                return Tup([self.iter_elem(e, node, fr) for e in val.elems])
            if val.kind == 'enumerate':
                return Tup(['N', self.iter_elem(val.elems[0], node, fr)])
            if val.kind == 'items':
                return Tup([TOP, self.iter_elem(val.elems[0], node, fr)])
            out = BOT
            for e in val.elems:
                out = self.join(out, e)
            return out
        return val if isinstance(val, str) else TOP

    def comprehension(self, node, fr):
        if isinstance(node, (ast.ListComp, ast.GeneratorExp)):
            return self.value(node.elt, fr)
        return TOP

    def sequence(self, node, vals, fr):
        return Tup(vals, 'list' if isinstance(node, ast.List) else 'tuple')

    def _flat(self, v):
        """Kind of the elements of a (possibly nested) sequence literal."""
        if isinstance(v, Tup):
            out = BOT
            for e in v.elems:
                out = self.join(out, self._flat(e))
            return out
        return v

    def name(self, node, fr):
        v = super().name(node, fr)
        acc = self._appended(node.id, fr)
        if acc is not None:
            return acc
        return v

    def _appended(self, nm, fr):
        binds = fr.bindings.get(nm, [])
        if not binds or not all(b.kind == 'assign' and isinstance(b.value, ast.List) and not b.value.elts for b in binds):
            return None
        from .model import walk_no_nested
        out = BOT
        for n in walk_no_nested(fr.fn.node):
            if isinstance(n, ast.Call) and isinstance(n.func, ast.Attribute) and n.func.attr == 'append' \
                    and isinstance(n.func.value, ast.Name) and n.func.value.id == nm and n.args:
                out = self.join(out, self.value(n.args[0], fr))
        return TOP if out is BOT else out

    # ------------------------------------------------------------------- calls
    def _want(self, node, fr, got, want, what):
        if got is TOP or got is BOT:
            return
        ok = (got == want) or (want == 'P' and is_prob(got)) or (want == 'X' and got == 'X') \
            or (want == 'N' and (got == 'N' or (isinstance(got, tuple) and got[0] == 'num')))
        if not ok and isinstance(got, str):
            self.mismatches.append((node, fr.fn, f'{what} expects a value of kind {want} but receives kind {got}'))

    def external_call(self, name, node, fr):
        if name is None:
            return TOP
        args = node.args
        leaf = name.split('.')[-1]
        if name in ('scipy.stats.norm.ppf', 'scipy.special.ndtri'):
            a = self._flat(self.value(args[0], fr)) if args else TOP
            if a == 'P':
                self.mismatches.append((node, fr.fn, 'norm.ppf receives a probability that is not clipped to [EPSILON, 1 - EPSILON] '
                                        '(it may be 0, 1 or arbitrarily close to them): infinite or extreme normal scores'))
            else:
                self._want(node, fr, a, 'P0', 'norm.ppf')
            return 'Z' if a is not TOP else 'Z'
        if name in ('scipy.stats.norm.cdf', 'scipy.special.ndtr'):
            a = self._flat(self.value(args[0], fr)) if args else TOP
            self._want(node, fr, a, 'Z', leaf)
            return 'P'
        if name in ('scipy.stats.norm.pdf',):
            return 'D'
        if name.startswith('scipy.stats.multivariate_normal.'):
            a = self._flat(self.value(args[0], fr)) if args else TOP
            self._want(node, fr, a, 'Z', f'multivariate_normal.{leaf}')
            cov = kwarg(node, 'cov', 2)
            if cov is not None:
                c = self.value(cov, fr)
                if isinstance(c, str) and c not in ('CORR', 'COV'):
                    self.mismatches.append((node, fr.fn, f'multivariate_normal.{leaf} cov= has kind {c}, not the fitted correlation'))
                if c is TOP:
                    self.mismatches.append((node, fr.fn, f'?multivariate_normal.{leaf} cov= is not derivable'))
            else:
                self.mismatches.append((node, fr.fn, f'multivariate_normal.{leaf} without cov=: identity covariance instead of the fitted correlation'))
            mean = kwarg(node, 'mean', 1)
            if mean is not None and self.value(mean, fr) not in ('ZERO', ('num', 0)):
                self.mismatches.append((node, fr.fn, f'multivariate_normal.{leaf} with a non-zero mean'))
            return {'pdf': 'D', 'cdf': 'P', 'logpdf': 'logD'}.get(leaf, TOP)
        if name == 'numpy.random.multivariate_normal':
            cov = kwarg(node, 'cov', 1)
            c = self.value(cov, fr) if cov is not None else TOP
            if isinstance(c, str) and c not in ('CORR', 'COV'):
                self.mismatches.append((node, fr.fn, f'multivariate normal draw with covariance of kind {c}'))
            return 'Z'
        if name == 'numpy.random.normal':
            sc = kwarg(node, 'scale', 1)
            k = self.value(sc, fr) if sc is not None else ('num', 1)
            if k in ('CORR', 'COV'):
                self.mismatches.append((node, fr.fn, 'np.random.normal(loc, scale): scale is a standard deviation but receives an '
                                        'element of a covariance matrix (a variance)'))
            return 'Z'
        if name == 'numpy.linalg.inv' and args:
            return 'COVINV' if self.value(args[0], fr) in ('CORR', 'COV') else TOP
        if name == 'numpy.sqrt' and args:
            return 'SD' if self.value(args[0], fr) in ('CORR', 'COV') else TOP
        if name == 'numpy.random.uniform':
            lo = self.value(kwarg(node, 'low', 0), fr) if kwarg(node, 'low', 0) is not None else ('num', 0)
            hi = self.value(kwarg(node, 'high', 1), fr) if kwarg(node, 'high', 1) is not None else ('num', 1)
            if lo in (('num', 0), ('num', 0.0)) and hi in (('num', 1), ('num', 1.0)):
                return 'P'
            return ('uniform', lo, hi)
        if name in ('numpy.random.random', 'numpy.random.rand', 'numpy.random.random_sample'):
            return 'P'
        if name == 'scipy.stats.kendalltau':
            return Tup(['TAU', 'PVAL'])
        if name == 'scipy.stats.kstest':
            return Tup(['KS', 'PVAL'])
        if name == 'numpy.log':
            a = self._flat(self.value(args[0], fr)) if args else TOP
            return 'logD' if a == 'D' else TOP
        if name in ('numpy.identity', 'numpy.eye'):
            return 'IDENT'
        if name == 'numpy.ones':
            return 'ONES'
        if name == 'numpy.zeros':
            return 'ZERO'
        if name == 'numpy.full' and len(args) >= 2:
            return self.value(args[1], fr)
        if name == 'numpy.clip' and len(args) >= 3:
            return self._clip(self._flat(self.value(args[0], fr)), self.value(args[1], fr), self.value(args[2], fr))
        if name == 'numpy.where' and len(args) == 3:
            return self._where(node, fr)
        if name in ('min', 'max', 'numpy.minimum', 'numpy.maximum') and len(args) == 2:
            a, b = self.value(args[0], fr), self.value(args[1], fr)
            ks = [k for k in (a, b) if isinstance(k, str) and k not in ('EPS', '1-EPS')]
            if len(ks) == 1 and is_prob(ks[0]) or (len(ks) == 1 and ks[0] == 'Pclip'):
                other = b if a is ks[0] else a
                return ('bounded', ks[0], leaf, other)
            if any(isinstance(k, tuple) and k and k[0] == 'bounded' for k in (a, b)):
                inner = a if isinstance(a, tuple) and a and a[0] == 'bounded' else b
                other = b if inner is a else a
                # min(max(p, lo), hi): a probability strictly inside (0,1) when 0 < lo and hi < 1
                lo_hi = {inner[2]: inner[3], leaf: other}
                lo, hi = lo_hi.get('max', lo_hi.get('maximum')), lo_hi.get('min', lo_hi.get('minimum'))
                if self._pos(lo) and self._below_one(hi):
                    return 'P0'
                return 'P'
            return TOP
        if name in PRESERVING_FUNCS and args:
            return self._flat(self.value(args[0], fr))
        if name.startswith('scipy.stats.') and leaf in SCIPY_DIST_SIG:
            want, res = SCIPY_DIST_SIG[leaf]
            if args:
                self._want(node, fr, self._flat(self.value(args[0], fr)), want, f'{name}')
            return res
        return TOP

    def _where(self, node, fr):
        """np.where(x < lo, lo, np.where(x > hi, hi, x)) is clip(x, lo, hi); any other selection of probabilities is a
        probability without the clipping guarantee."""
        def parse(w):
            if not (isinstance(w, ast.Call) and call_name(w) == 'where' and len(w.args) == 3):
                return None
            c, a, b = w.args
            if not (isinstance(c, ast.Compare) and len(c.ops) == 1):
                return None
            return c, a, b
        outer = parse(node)
        base_kinds = []
        if outer:
            c, a, b = outer
            inner = parse(b)
            if inner:
                c2, a2, b2 = inner
                x = self._flat(self.value(b2, fr))
                lo_v, hi_v = self.value(a, fr), self.value(a2, fr)
                t1, t2 = self.value(c.comparators[0], fr), self.value(c2.comparators[0], fr)
                same_x = ast.dump(c.left) == ast.dump(c2.left) == ast.dump(b2)
                if is_prob(x) and same_x:
                    lower_first = isinstance(c.ops[0], (ast.Lt, ast.LtE)) and isinstance(c2.ops[0], (ast.Gt, ast.GtE))
                    if lower_first and t1 == lo_v and t2 == hi_v:
                        return self._clip(x, lo_v, hi_v)
                    upper_first = isinstance(c.ops[0], (ast.Gt, ast.GtE)) and isinstance(c2.ops[0], (ast.Lt, ast.LtE))
                    if upper_first and t1 == lo_v and t2 == hi_v:
                        return self._clip(x, hi_v, lo_v)
                    return 'P'
        vals = [self._flat(self.value(a, fr)) for a in node.args[1:]]
        ks = [v for v in vals if isinstance(v, str) and v not in ('EPS', '1-EPS')]
        if ks and all(is_prob(k) for k in ks):
            return 'P'
        out = BOT
        for v in vals:
            out = self.join(out, v)
        return out

    @staticmethod
    def _pos(k):
        return k == 'EPS' or (isinstance(k, tuple) and k[0] == 'num' and isinstance(k[1], (int, float)) and 0 < k[1] < 1)

    @staticmethod
    def _below_one(k):
        return k == '1-EPS' or (isinstance(k, tuple) and k[0] == 'num' and isinstance(k[1], (int, float)) and 0 < k[1] < 1)

    def _clip(self, base, lo, hi):
        if is_prob(base):
            return 'P0' if (self._pos(lo) and self._below_one(hi)) else 'P'
        return base

    def model_method(self, meth, node, fr, hierarchy):
        sig = (UNI_SIG if hierarchy == 'uni' else BIV_SIG).get(meth)
        if sig is None:
            return None
        want, res = sig
        for a in node.args[:(2 if hierarchy == 'biv' and meth in ('percent_point', 'ppf', 'partial_derivative_scalar') else 1)]:
            self._want(node, fr, self._flat(self.value(a, fr)), want, f'{"univariate" if hierarchy == "uni" else "bivariate"} {meth}()')
        return res

    def receiver_hierarchy(self, node, fr):
        f = node.func
        if not isinstance(f, ast.Attribute):
            return None
        types = self.cg.expr_classes(fr.fn, f.value)
        if types:
            names = {t.qualname for t in types if not isinstance(t, str)}
            if any('.univariate.' in n for n in names):
                return 'uni'
            if any('.bivariate.' in n for n in names):
                return 'biv'
            if any(isinstance(t, str) and 'scipy.stats' in t for t in types):
                return 'scipy'
        return None

    def call(self, node, fr):
        f = node.func
        if isinstance(f, ast.Attribute):
            meth = f.attr
            if meth == 'clip' and len(node.args) >= 2:
                return self._clip(self._flat(self.value(f.value, fr)), self.value(node.args[0], fr), self.value(node.args[1], fr))
            if meth in PRESERVING_METHODS:
                base = self.value(f.value, fr)
                if base is not TOP:
                    return self._flat(base) if meth in ('to_numpy', 'ravel', 'flatten', 'tolist') else base
            h = self.receiver_hierarchy(node, fr)
            if h == 'scipy' and meth in SCIPY_DIST_SIG:
                want, res = SCIPY_DIST_SIG[meth]
                if node.args:
                    self._want(node, fr, self._flat(self.value(node.args[0], fr)), want, f'<dist>.{meth}')
                return res
            if h in ('uni', 'biv') and meth in (UNI_SIG if h == 'uni' else BIV_SIG):
                return self.model_method(meth, node, fr, h)
            if h is None and self.hierarchy and meth in (UNI_SIG if self.hierarchy == 'uni' else BIV_SIG):
                nm = self.prog.resolve(fr.fn.module, f)
                if nm is None:
                    tg = self.cg.targets(fr.fn, node, fr.concrete)
                    if all(t.kind != 'proj' or t.how == 'by method name' for t in tg):
                        return self.model_method(meth, node, fr, self.hierarchy)
        return super().call(node, fr)

    def method_call(self, meth, node, recv, fr):
        if meth == 'corr':
            return 'CORR'
        if meth in PRESERVING_METHODS:
            return recv if recv is not TOP else None
        return None


# ==================================================================== E5c: axis-order provenance
# ('ord', tag)            a 1-D sequence / labelled vector whose elements are ordered by `tag`
# ('mat', rowtag, coltag) a 2-D table
# tags: ('cols',) training order (self.columns)        ('keys', K) key order of container K
#       ('filter', tag, K) `tag` filtered by membership in K      ('xcols', K) column order of frame K
#       ('diff', id) result of Index.difference (sorted)          'ANY' polymorphic (zeros, scalars)
#       'ROWS' the batch axis
ANY = 'ANY'
ROWS = 'ROWS'


def tag_compat(t1, t2):
    """True (definitely aligned), False (may be misaligned at equal length), None (unknown)."""
    if t1 is TOP or t2 is TOP or t1 is None or t2 is None:
        return None
    for a, b in ((t1, t2), (t2, t1)):
        if isinstance(a, tuple) and a and a[0] == 'alts':
            rs = [tag_compat(x, b) for x in a[1:]]
            if any(r is False for r in rs):
                return False
            return True if all(r is True for r in rs) else None
    if t1 == ANY or t2 == ANY or t1 == t2:
        return True
    # a training-order list filtered by membership, paired with the full training order:
    # equal length forces the filter to be the identity (a length mismatch is a loud shape error)
    for a, b in ((t1, t2), (t2, t1)):
        if isinstance(a, tuple) and a[0] == 'filter' and a[1] == b:
            return True
    # two filters of the same order whose membership sets are not both known containers: whether they keep the same elements is not derived
    if isinstance(t1, tuple) and isinstance(t2, tuple) and t1[0] == t2[0] == 'filter' and t1[1] == t2[1] \
            and any(isinstance(t[2], str) and t[2].startswith('cond:') for t in (t1, t2) if len(t) > 2):
        return None
    return False


class OrderKind(AbsInt):
    def __init__(self, ctx):
        super().__init__(ctx)
        self.mismatches = []  # (node, fn, msg)
        self.undecided = []
        self.checked = []  # (node, fn, what) pairings that were verified
        self.sym = {}  # parameter symbol table: (fn qualname, param) -> K symbol

    # ---------------------------------------------------------------- helpers
    def K(self, fr, name):
        """Symbol for the container held by parameter `name` (propagated through calls)."""
        v = fr.params.get(name)
        if isinstance(v, tuple) and v and v[0] == 'container':
            return v[1]
        return f'{fr.fn.name}.{name}'

    def pair(self, node, fr, t1, t2, what):
        c = tag_compat(t1, t2)
        if c is True:
            self.checked.append((node, fr.fn, f'{what}: {fmt_tag(t1)} ~ {fmt_tag(t2)}'))
        elif c is False:
            self.mismatches.append((node, fr.fn, f'{what}: positions ordered by {fmt_tag(t1)} are paired with '
                                    f'labels/partner ordered by {fmt_tag(t2)} (same length, possibly different order)'))
        else:
            self.undecided.append((node, fr.fn, f'{what}: order not derivable ({fmt_tag(t1)} vs {fmt_tag(t2)})'))

    @staticmethod
    def otag(v):
        if isinstance(v, tuple) and v and v[0] == 'ord':
            return v[1]
        if isinstance(v, tuple) and v and v[0] == 'container':
            return ('keys', v[1])
        if v == ANY:
            return ANY
        return TOP

    # ------------------------------------------------------------------ domain
    def const(self, node, fr):
        return ANY

    def param(self, name, fr):
        if name in fr.params:
            return fr.params[name]
        return ('container', f'{fr.fn.name}.{name}')

    def self_attr(self, attr, node, fr):
        if attr in ('columns', 'univariates'):
            return ('ord', ('cols',))
        if attr == 'correlation':
            return ('mat', ('cols',), ('cols',))
        return TOP

    def join_distinct(self, a, b):
        # a labelled one-row frame made from Series K / an array relabelled with the training columns is,
        # for membership and label-based access, still "container K"
        for x, y in ((a, b), (b, a)):
            if isinstance(x, tuple) and x and x[0] == 'container' and isinstance(y, tuple) and y and y[0] == 'mat' \
                    and y[1] == ROWS and (y[2] == ('keys', x[1]) or y[2] == ('cols',) or y[2] == ANY):
                return x
            if isinstance(x, tuple) and x and x[0] == 'container' and isinstance(y, Tup) and len(y.elems) == 1 \
                    and y.elems[0] == x:
                return x  # X = [X]: a single positional row
        return TOP

    def attribute(self, node, base, fr):
        if isinstance(base, tuple) and base:
            if base[0] == 'container':
                if node.attr == 'index':
                    return ('ord', ('keys', base[1]))
                if node.attr == 'columns':
                    return ('ord', ('xcols', base[1]))
                if node.attr == 'T':
                    return ('mat', ROWS, ('keys', base[1]))  # Series.to_frame().T: one row, columns = keys
                if node.attr == 'values':
                    return base
            if base[0] == 'ord' and node.attr in ('index', 'values', 'T'):
                return base
            if base[0] == 'mat':
                if node.attr == 'columns':
                    return ('ord', base[2])
                if node.attr == 'index':
                    return ('ord', base[1])
                if node.attr == 'T':
                    return ('mat', base[2], base[1])
                if node.attr in ('values', 'loc', 'iloc'):
                    return base
        return TOP

    def binop(self, node, left, right, fr):
        if isinstance(node.op, ast.MatMult):
            return self.matmul(node, left, right, fr)
        if isinstance(node.op, ast.Add) and all(isinstance(x, tuple) and x and x[0] == 'ord' and isinstance(x[1], tuple) and x[1]
                                                and x[1][0] in ('filter', 'xcols', 'keys', 'cols', 'sorted', 'concat') for x in (left, right)) \
                and self._is_list_expr(node, fr):
            return ('ord', ('concat', left[1], right[1]))
        for a, b in ((left, right), (right, left)):
            if isinstance(a, tuple) and a and a[0] in ('mat', 'ord'):
                if isinstance(b, tuple) and b and b[0] == a[0]:
                    if a[0] == 'mat':
                        self.pair(node, fr, a[1], b[1], 'elementwise operation (rows)')
                        self.pair(node, fr, a[2], b[2], 'elementwise operation (columns)')
                    else:
                        self.pair(node, fr, a[1], b[1], 'elementwise operation')
                return a
        return ANY if left == ANY and right == ANY else TOP

    def unaryop(self, node, operand, fr):
        return operand

    def _is_list_expr(self, node, fr):
        """`a + b` is list concatenation when an operand is a list/comprehension (through single-assignment locals)."""
        from .idioms import resolve
        for side in (node.left, node.right):
            v = resolve(fr.fn.node, side)
            if isinstance(v, (ast.List, ast.ListComp)) or (isinstance(v, ast.Call) and isinstance(v.func, ast.Name) and v.func.id in ('list', 'sorted')):
                return True
        return False

    def returns(self, fr):
        """Path by path; different orders on different paths are kept as alternatives."""
        from .idioms import enum_paths
        from .absint import Frame as _Frame
        vals = []
        for path in enum_paths(fr.fn.body()):
            if not isinstance(path.end, ast.Return) or path.end.value is None:
                continue
            sub = _Frame(fr.fn, dict(fr.params), fr.concrete, fr.depth, path=path)
            v = self.value(path.end.value, sub)
            if v not in vals:
                vals.append(v)
        if not vals:
            return TOP
        if len(vals) == 1:
            return vals[0]
        if all(isinstance(v, tuple) and v and v[0] == 'ord' for v in vals):
            return ('ord', ('alts',) + tuple(v[1] for v in vals))
        if all(isinstance(v, tuple) and v and v[0] == 'mat' for v in vals):
            rows = [v[1] for v in vals]
            cols = [v[2] for v in vals]
            rt = rows[0] if all(r == rows[0] for r in rows) else ('alts',) + tuple(dict.fromkeys(rows))
            ct = cols[0] if all(c == cols[0] for c in cols) else ('alts',) + tuple(dict.fromkeys(cols))
            return ('mat', rt, ct)
        if all(isinstance(v, Tup) for v in vals) and len({len(v.elems) for v in vals}) == 1:
            return Tup([self._alts([v.elems[k] for v in vals]) for k in range(len(vals[0].elems))])
        out = BOT
        for v in vals:
            out = self.join(out, v)
        return out

    def _alts(self, vs):
        uniq = []
        for v in vs:
            if v not in uniq:
                uniq.append(v)
        if len(uniq) == 1:
            return uniq[0]
        if all(isinstance(v, tuple) and v and v[0] == 'ord' for v in uniq):
            return ('ord', ('alts',) + tuple(v[1] for v in uniq))
        out = BOT
        for v in uniq:
            out = self.join(out, v)
        return out

    def matmul(self, node, a, b, fr):
        if isinstance(a, tuple) and a and a[0] == 'mat':
            if isinstance(b, tuple) and b and b[0] == 'mat':
                self.pair(node, fr, a[2], b[1], 'matrix product (inner axis)')
                return ('mat', a[1], b[2])
            if isinstance(b, tuple) and b and b[0] == 'ord':
                self.pair(node, fr, a[2], b[1], 'matrix-vector product')
                return ('ord', a[1])
            if b == ANY:
                return ('ord', a[1])
        return TOP

    def subscript(self, node, base, fr):
        from .model import const_value
        if isinstance(base, tuple) and base and base[0] == 'mat':
            sl = node.slice
            # .loc[rows, cols]
            if isinstance(sl, ast.Tuple) and len(sl.elts) == 2 and isinstance(node.value, ast.Attribute) \
                    and node.value.attr == 'loc':
                r, c = self.value(sl.elts[0], fr), self.value(sl.elts[1], fr)
                return ('mat', self.otag(r), self.otag(c))
            if isinstance(const_value(sl, None), int):
                return ('ord', base[2])  # one row
            lab = self.value(sl, fr) if not isinstance(sl, (ast.Slice, ast.Tuple)) else TOP
            if isinstance(lab, tuple) and lab and lab[0] == 'ord' and not (isinstance(node.value, ast.Attribute) and node.value.attr in ('loc', 'iloc')):
                return ('mat', base[1], lab[1])  # frame[list of labels]: those columns, in that order
            return TOP
        if isinstance(base, tuple) and base and base[0] == 'container':
            return ANY  # label-based access: order-agnostic
        if isinstance(base, tuple) and base and base[0] == 'ord' and isinstance(node.slice, (ast.Compare, ast.BinOp, ast.UnaryOp)):
            return ('ord', ('filter', base[1], 'mask:' + ast.unparse(node.slice)[:40]))
        if isinstance(base, tuple) and base and base[0] == 'ord':
            if isinstance(node.slice, ast.Slice):
                if node.slice.step is not None or node.slice.lower is not None or node.slice.upper is not None:
                    return ('ord', ('slice', base[1], ast.unparse(node.slice)))
                return base
            return ANY
        return TOP

    def sequence(self, node, vals, fr):
        return Tup(vals, 'list' if isinstance(node, ast.List) else 'tuple')

    def iter_elem(self, val, node, fr):
        return ANY

    def comprehension(self, node, fr):
        if isinstance(node, ast.ListComp) and len(node.generators) == 1:
            g = node.generators[0]
            src = self.loop_order(g.iter, fr, node)
            for cond in g.ifs:
                k = self._membership(cond, fr, g.target)
                if k == 'IDENT' and src == ('cols',):
                    continue
                src = ('filter', src, k if k is not None else 'cond:' + ast.unparse(cond)[:40])
            return ('ord', src) if src is not TOP else TOP
        return TOP

    def loop_order(self, it, fr, node):
        """Order in which a for loop / comprehension visits its elements."""
        if isinstance(it, ast.Call) and isinstance(it.func, ast.Name) and it.func.id == 'zip':
            tags = [self.otag(self.value(a, fr)) for a in it.args]
            for t in tags[1:]:
                self.pair(node, fr, tags[0], t, 'zip of parallel sequences')
            return tags[0]
        if isinstance(it, ast.Call) and isinstance(it.func, ast.Name) and it.func.id == 'enumerate' and it.args:
            return self.loop_order(it.args[0], fr, node)
        if isinstance(it, ast.Call) and isinstance(it.func, ast.Attribute) and it.func.attr in ('items', 'keys') and not it.args:
            v = self.value(it.func.value, fr)
            if isinstance(v, tuple) and v and v[0] == 'container':
                return ('xcols', v[1])
            if isinstance(v, tuple) and v and v[0] == 'mat':
                return v[2]
            return self.otag(v)
        v = self.value(it, fr)
        if isinstance(v, tuple) and v and v[0] == 'container':
            return ('xcols', v[1])  # iterating a frame / dict yields its keys in its own order
        return self.otag(v)

    def _membership(self, test, fr, target):
        """`<loop var> in K` -> symbol of K."""
        if isinstance(test, ast.Compare) and len(test.ops) == 1 and isinstance(test.ops[0], ast.In) \
                and isinstance(test.left, ast.Name):
            v = self.value(test.comparators[0], fr)
            if isinstance(v, tuple) and v and v[0] == 'container':
                return v[1]
            if isinstance(v, tuple) and v and v[0] == 'ord' and isinstance(v[1], tuple) and v[1][0] in ('keys', 'xcols'):
                return v[1][1]
            if isinstance(v, tuple) and v and v[0] == 'mat' and isinstance(v[2], tuple) and v[2][0] in ('keys', 'xcols'):
                return v[2][1]
            if isinstance(v, tuple) and v and v[0] == 'mat' and v[2] == ('cols',):
                return 'IDENT'  # membership in a frame labelled with exactly the training columns
        return None

    def name(self, node, fr):
        acc = self._appended(node.id, fr)
        if acc is not None:
            return acc
        return super().name(node, fr)

    def _appended(self, nm, fr):
        """List filled by one append per loop iteration inherits the loop's order (and its filter)."""
        from .model import walk_no_nested
        binds = fr.bindings.get(nm, [])
        if not binds or not all(b.kind == 'assign' and isinstance(b.value, ast.List) and not b.value.elts for b in binds):
            return None
        apps = [n for n in walk_no_nested(fr.fn.node) if isinstance(n, ast.Call) and isinstance(n.func, ast.Attribute)
                and n.func.attr == 'append' and isinstance(n.func.value, ast.Name) and n.func.value.id == nm]
        if not apps:
            return None
        per_loop = {}
        for app in apps:
            r = self._append_site(app, fr)
            if r is None:
                return TOP
            loop, tag, branch = r
            per_loop.setdefault(id(loop), (loop, []))[1].append((tag, branch))
        tags = []
        for loop, sites in sorted(per_loop.values(), key=lambda x: x[0].lineno):
            if len(sites) == 1:
                tags.append(sites[0][0])
            elif len(sites) == 2 and sites[0][1] is not None and sites[1][1] is not None and sites[0][1][0] is sites[1][1][0] \
                    and {sites[0][1][1], sites[1][1][1]} == {'body', 'orelse'} and sites[0][0] == sites[1][0]:
                tags.append(sites[0][0])  # one append in each arm of the same if/else: every iteration appends once
            else:
                return TOP
        loops = [l for l, _ in per_loop.values()]
        for a in loops:
            for b in loops:
                if a is not b and any(x is b for x in ast.walk(a)):
                    return TOP  # nested loops: order not modelled
        if any(t is TOP for t in tags):
            return TOP
        tag = tags[0]
        for t in tags[1:]:
            tag = ('concat', tag, t)
        return ('ord', tag)

    def _append_site(self, app, fr):
        """(loop, order tag of the appended elements, (if node, arm) when the append sits in one arm of an if/else)."""
        stmt = app._parent
        chain = []
        p = stmt._parent
        child = stmt
        loop = None
        branch = None
        while p is not None and p is not fr.fn.node:
            if isinstance(p, ast.For):
                loop = p
                break
            if isinstance(p, ast.If) and child in p.body and not p.orelse:
                chain.append(p.test)
            elif isinstance(p, ast.If):
                if branch is not None:
                    return None
                branch = (p, 'body' if child in p.body else 'orelse')
            # statements before `child` in this block that can skip the rest of the iteration
            for blk in (getattr(p, 'body', []), getattr(p, 'orelse', [])):
                if child in blk:
                    for prev in blk[:blk.index(child)]:
                        if isinstance(prev, ast.If) and any(isinstance(x, (ast.Continue, ast.Break)) for x in ast.walk(prev)):
                            chain.append(ast.UnaryOp(op=ast.Not(), operand=prev.test))
            child = p
            p = p._parent
        if loop is None:
            return None
        for prev in loop.body[:loop.body.index(child)] if child in loop.body else []:
            if isinstance(prev, ast.If) and any(isinstance(x, (ast.Continue, ast.Break)) for x in ast.walk(prev)):
                chain.append(ast.UnaryOp(op=ast.Not(), operand=prev.test))
        tag = self.loop_order(loop.iter, fr, loop)
        if tag is TOP:
            return loop, TOP, branch

        def simplify(t):
            # not (a not in b) -> a in b ; not (a in b) -> a not in b ; not not t -> t
            while isinstance(t, ast.UnaryOp) and isinstance(t.op, ast.Not):
                inner = t.operand
                if isinstance(inner, ast.UnaryOp) and isinstance(inner.op, ast.Not):
                    t = inner.operand
                elif isinstance(inner, ast.Compare) and len(inner.ops) == 1 and isinstance(inner.ops[0], (ast.In, ast.NotIn)):
                    t = ast.Compare(left=inner.left, ops=[ast.In() if isinstance(inner.ops[0], ast.NotIn) else ast.NotIn()], comparators=inner.comparators)
                else:
                    break
            return t
        chain = [simplify(t) for t in chain]
        for t in chain:
            k = self._membership(t, fr, loop.target)
            if k == 'IDENT' and tag == ('cols',):
                continue
            tag = ('filter', tag, k if k is not None else 'cond:' + ast.unparse(t)[:40])
        return loop, tag, branch

    # ------------------------------------------------------------------- calls
    def external_call(self, name, node, fr):
        args = node.args
        if name is None:
            return TOP
        if name == 'pandas.Series':
            data = kwarg(node, 'data', 0)
            idx = kwarg(node, 'index', 1)
            v = self.value(data, fr) if data is not None else TOP
            if idx is None:
                if isinstance(v, tuple) and v and v[0] == 'container':
                    return v  # Series(dict) keeps the dict's key order and identity
                return v
            t_idx = self.otag(self.value(idx, fr))
            self.pair(node, fr, self.otag(v), t_idx, 'pd.Series(values, index=labels)')
            return ('ord', t_idx)
        if name == 'pandas.DataFrame':
            data = kwarg(node, 'data', 0)
            v = self.value(data, fr) if data is not None else TOP
            idx, cols = kwarg(node, 'index', 1), kwarg(node, 'columns', 2)
            rt = ct = None
            if isinstance(v, Tup) and len(v.elems) == 1:
                e = v.elems[0]
                # [row]: a one-row table; an unlabelled array-like row is positional
                v = ('mat', ROWS, ('cols',) if (isinstance(e, tuple) and e and e[0] == 'container') else self.otag(e))
            if isinstance(v, tuple) and v and v[0] == 'mat':
                rt, ct = v[1], v[2]
            elif isinstance(v, tuple) and v and v[0] == 'container':
                # an array-like parameter: positional columns, documented to be in training order
                rt, ct = ROWS, ('cols',)
                if cols is None and idx is None:
                    return v
            elif isinstance(v, tuple) and v and v[0] == 'dict':
                return ('mat', ROWS, v[1])
            if cols is not None:
                tcols = self.otag(self.value(cols, fr))
                if ct is not None:
                    self.pair(node, fr, ct, tcols, 'pd.DataFrame(data, columns=labels)')
                else:
                    self.undecided.append((node, fr.fn, 'DataFrame data order not derivable'))
                ct = tcols
            if idx is not None:
                tidx = self.otag(self.value(idx, fr))
                if rt is not None:
                    self.pair(node, fr, rt, tidx, 'pd.DataFrame(data, index=labels)')
                rt = tidx
            if rt is None and ct is None:
                return TOP
            return ('mat', rt if rt is not None else ROWS, ct if ct is not None else TOP)
        if name in ('numpy.column_stack',) and args:
            v = self.value(args[0], fr)
            if isinstance(v, Tup):
                return ('mat', ROWS, ANY)
            return ('mat', ROWS, self.otag(v))
        if name in ('scipy.stats.norm.ppf', 'scipy.stats.norm.cdf', 'numpy.nan_to_num', 'numpy.array', 'numpy.asarray',
                    'scipy.special.ndtr', 'numpy.log', 'numpy.exp', 'numpy.abs') and args:
            return self.value(args[0], fr)
        if name == 'numpy.linalg.inv' and args:
            v = self.value(args[0], fr)
            return ('mat', v[2], v[1]) if isinstance(v, tuple) and v and v[0] == 'mat' else TOP
        if name == 'numpy.linalg.solve' and len(args) == 2:
            a, b = self.value(args[0], fr), self.value(args[1], fr)
            if isinstance(a, tuple) and a and a[0] == 'mat':
                if isinstance(b, tuple) and b and b[0] == 'mat':
                    self.pair(node, fr, a[1], b[1], 'solve(A, B) (rows)')
                    return ('mat', a[2], b[2])
                if isinstance(b, tuple) and b and b[0] == 'ord':
                    self.pair(node, fr, a[1], b[1], 'solve(A, b)')
                    return ('ord', a[2])
            return TOP
        if name in ('numpy.zeros', 'numpy.ones', 'numpy.identity', 'numpy.eye', 'len', 'numpy.linalg.cond', 'numpy.full'):
            return ANY
        if name == 'numpy.random.multivariate_normal':
            mean, cov = kwarg(node, 'mean', 0), kwarg(node, 'cov', 1)
            m = self.value(mean, fr) if mean is not None else TOP
            c = self.value(cov, fr) if cov is not None else TOP
            if isinstance(c, tuple) and c and c[0] == 'mat':
                self.pair(node, fr, self.otag(m), c[1], 'multivariate_normal(mean, cov)')
                return ('mat', ROWS, c[2])
            return TOP
        if name.startswith('scipy.stats.multivariate_normal.'):
            cov = kwarg(node, 'cov', 2)
            x = self.value(args[0], fr) if args else TOP
            c = self.value(cov, fr) if cov is not None else TOP
            if isinstance(x, tuple) and x and x[0] == 'mat' and isinstance(c, tuple) and c and c[0] == 'mat':
                self.pair(node, fr, x[2], c[1], f'{name.split(".")[-1]}(points, cov)')
            elif cov is not None:
                self.undecided.append((node, fr.fn, 'order of the evaluation points / covariance not derivable'))
            return ANY
        if name == 'isinstance':
            return ANY
        if name in ('sorted', 'reversed') and args:
            t = self.otag(self.value(args[0], fr))
            return ('ord', (name, t)) if t is not TOP else TOP
        if name in ('list', 'tuple', 'pandas.Index') and args:
            return self.value(args[0], fr)
        if name in ('numpy.setdiff1d', 'numpy.union1d', 'numpy.intersect1d', 'numpy.unique', 'numpy.setxor1d') and args:
            return ('ord', ('diff', id(node)))          # NumPy's set routines return sorted unique values
        return TOP

    def method_call(self, meth, node, recv, fr):
        if meth in ('sort_values', 'sort_index', 'sort') and isinstance(recv, tuple) and recv and recv[0] == 'ord':
            return ('ord', ('sorted', recv[1]))
        if meth in ('to_numpy', 'copy', 'astype', 'clip', 'tolist'):
            return recv
        if meth == 'corr' and isinstance(recv, tuple) and recv and recv[0] == 'mat':
            return ('mat', recv[2], recv[2])
        if meth == 'difference' and isinstance(recv, tuple) and recv and recv[0] == 'ord':
            return ('ord', ('diff', id(node)))
        if meth == 'to_frame':
            return recv
        if meth in ('cdf', 'percent_point', 'cumulative_distribution', 'ppf'):
            return ANY
        return None

    def dict_literal(self, node, fr):
        return TOP


def fmt_tag(t):
    if t is TOP or t is None:
        return '?'
    if t == ANY:
        return 'any'
    if t == ROWS:
        return 'rows'
    if isinstance(t, tuple):
        if t[0] == 'cols':
            return 'ord(self.columns)'
        if t[0] == 'keys':
            return f'ord(keys of {t[1]})'
        if t[0] == 'xcols':
            return f'ord(columns of {t[1]})'
        if t[0] == 'filter':
            return f'{fmt_tag(t[1])} | in {t[2]}'
        if t[0] == 'diff':
            return 'sorted(difference)'
        if t[0] in ('sorted', 'reversed'):
            return f'{t[0]}({fmt_tag(t[1])})'
        if t[0] == 'slice':
            return f'{fmt_tag(t[1])}[{t[2]}]'
        if t[0] == 'concat':
            return f'{fmt_tag(t[1])} ++ {fmt_tag(t[2])}'
        if t[0] == 'alts':
            return ' or '.join(fmt_tag(x) for x in t[1:])
    return str(t)


# ================================================================================ E5e: rank kinds
# 0 scalar, 1 rank-1 array, 2 rank-2 array; ('tuple', ...) ; TOP unknown
class RankKind(AbsInt):
    """Array rank of values, to check the scalar contracts of NumPy >= 2 (no implicit conversion of a
    size-1 array to a Python scalar)."""

    def __init__(self, ctx):
        super().__init__(ctx)
        self.param_ranks = {}

    def const(self, node, fr):
        return 0

    def param(self, name, fr):
        if name in fr.params:
            v = fr.params[name]
            return v
        return self.param_ranks.get((fr.fn.qualname, name), TOP)

    def global_name(self, dotted, node, fr):
        if dotted in ('copulas.utils.EPSILON', 'numpy.inf', 'numpy.pi', 'numpy.e', 'numpy.nan'):
            return 0
        return TOP

    def self_attr(self, attr, node, fr):
        if attr in ('theta', 'tau', 'n_var', 'n_sample', 'truncated', 'level', 'n_nodes'):
            return 0
        return TOP

    def join_distinct(self, a, b):
        return TOP

    def binop(self, node, l, r, fr):
        if isinstance(l, int) and isinstance(r, int):
            return max(l, r)
        if isinstance(l, int) and r is TOP or isinstance(r, int) and l is TOP:
            return TOP
        return TOP

    def unaryop(self, node, operand, fr):
        return operand

    def compare(self, node, fr):
        vals = [self.value(node.left, fr)] + [self.value(c, fr) for c in node.comparators]
        return max(vals) if all(isinstance(v, int) for v in vals) else TOP

    def subscript(self, node, base, fr):
        sl = node.slice
        if isinstance(base, Tup):
            from .model import const_value
            i = const_value(sl)
            if isinstance(i, int) and -len(base.elems) <= i < len(base.elems):
                return base.elems[i]
            return TOP
        if not isinstance(base, int):
            return TOP
        idx = sl.elts if isinstance(sl, ast.Tuple) else [sl]
        drop = 0
        for i in idx:
            if isinstance(i, ast.Slice):
                continue
            v = self.value(i, fr)
            if v == 0:
                drop += 1
            elif isinstance(i, (ast.Tuple, ast.List)) or v in (1, 2):
                pass  # fancy index keeps the axis
            else:
                return TOP
        return max(base - drop, 0) if base >= drop else TOP

    def attribute(self, node, base, fr):
        if node.attr in ('T', 'values', 'real'):
            return base
        if node.attr in ('x',):  # OptimizeResult.x
            return 1
        if node.attr in ('size', 'ndim'):
            return 0
        return TOP

    def sequence(self, node, vals, fr):
        return Tup(vals, 'list' if isinstance(node, ast.List) else 'tuple')

    def _rank_of_literal(self, v):
        """Rank of np.array(<literal>)."""
        if isinstance(v, Tup):
            if not v.elems:
                return 1
            inner = [self._rank_of_literal(e) for e in v.elems]
            if all(isinstance(r, int) for r in inner) and len(set(inner)) == 1:
                return inner[0] + 1
            return TOP
        return v

    def external_call(self, name, node, fr):
        a = node.args
        if name is None:
            return TOP
        if name in ('numpy.array', 'numpy.asarray') and a:
            return self._rank_of_literal(self.value(a[0], fr))
        if name == 'numpy.column_stack' and a:
            v = self.value(a[0], fr)
            if isinstance(v, Tup) and all(isinstance(e, int) for e in v.elems):
                return 2  # scalars / vectors become columns of a matrix
            return TOP
        if name in ('numpy.ravel', 'numpy.atleast_1d') and a:
            v = self.value(a[0], fr)
            return 1 if isinstance(v, int) else TOP
        if name in ('numpy.squeeze',) and a:
            return TOP
        if name in ('float', 'int', 'len', 'numpy.sum', 'numpy.max', 'numpy.min', 'numpy.mean', 'min', 'max', 'abs',
                    'numpy.isnan', 'numpy.log', 'numpy.exp', 'numpy.power', 'numpy.sqrt', 'numpy.abs', 'numpy.sign'):
            if name in ('numpy.log', 'numpy.exp', 'numpy.power', 'numpy.sqrt', 'numpy.abs', 'numpy.sign', 'numpy.isnan', 'abs'):
                vals = [self.value(x, fr) for x in a]
                return max(vals) if vals and all(isinstance(v, int) for v in vals) else TOP
            if name in ('min', 'max') and len(a) >= 2:
                vals = [self.value(x, fr) for x in a]
                return max(vals) if all(isinstance(v, int) for v in vals) else TOP
            if name in ('float', 'int') and a:
                v = self.value(a[0], fr)
                if isinstance(v, int) and v > 0:
                    self.sink(node, fr, v, f'{name}() of an array')
                return 0
            axis = kwarg(node, 'axis')
            return 0 if axis is None else TOP
        if name in ('numpy.zeros', 'numpy.ones', 'numpy.empty', 'numpy.full'):
            sh = a[0] if a else None
            if isinstance(sh, (ast.List, ast.Tuple)):
                return len(sh.elts)
            return 1
        if name.startswith('numpy.random.'):
            leaf = name.split('.')[-1]
            if leaf in NP_RANDOM_SIZE_POS:
                sz = kwarg(node, 'size', NP_RANDOM_SIZE_POS[leaf])
                if sz is None:
                    return 0
                return len(sz.elts) if isinstance(sz, (ast.Tuple, ast.List)) else 1
            return TOP
        if name == 'scipy.integrate.quad':
            return Tup([0, 0])
        if name == 'scipy.optimize.brentq':
            return 0
        return TOP

    def method_call(self, meth, node, recv, fr):
        if meth == 'item':
            return 0
        if meth in ('ravel', 'flatten'):
            return 1 if isinstance(recv, int) else None
        if meth in ('copy', 'astype', 'clip'):
            return recv if isinstance(recv, int) else None
        if meth in ('sum', 'max', 'min', 'mean', 'all', 'any') and kwarg(node, 'axis') is None and not node.args:
            return 0
        return None

    def sink(self, node, fr, rank, what):
        if not hasattr(self, 'sinks'):
            self.sinks = []
        self.sinks.append((node, fr.fn, rank, what))


# ================================================================== E5b: affine dimension kinds
# 'Pt' a point on the data axis, 'Df' a difference (length), 'Df2' a squared length, '1' dimensionless,
# ('lit', v) a numeric literal (polymorphic: Df or 1), 'DATA' the sample itself (an array of Pt)
class DimKind(AbsInt):
    POINT_FUNCS = {'mean', 'median', 'min', 'max', 'amin', 'amax', 'nanmin', 'nanmax', 'nanmean', 'quantile', 'percentile'}
    DIFF_FUNCS = {'std', 'ptp', 'nanstd'}
    SQ_FUNCS = {'var', 'nanvar'}

    def __init__(self, ctx, data_params=('X',)):
        super().__init__(ctx)
        self.data_params = set(data_params)
        self.problems = []
        self.self_kinds = {}

    def const(self, node, fr):
        v = getattr(node, 'value', None)
        if isinstance(v, (int, float)) and not isinstance(v, bool):
            return ('lit', v)
        return TOP

    def param(self, name, fr):
        if name in fr.params:
            return fr.params[name]
        if name in self.data_params:
            return 'DATA'
        return TOP

    def global_name(self, dotted, node, fr):
        if dotted == 'copulas.utils.EPSILON':
            return ('lit', 'eps')
        return TOP

    def self_attr(self, attr, node, fr):
        return self.self_kinds.get(attr, TOP)

    def join_distinct(self, a, b):
        return TOP

    @staticmethod
    def lit(k):
        return isinstance(k, tuple) and k and k[0] == 'lit'

    def binop(self, node, l, r, fr):
        op = node.op
        L = self.lit
        if l is TOP or r is TOP or l is BOT or r is BOT:
            return TOP
        if isinstance(op, (ast.Add, ast.Sub)):
            if l == 'Pt' and r == 'Pt':
                if isinstance(op, ast.Sub):
                    return 'Df'
                self.problems.append((node, fr.fn, 'adds two points of the data axis (not translation equivariant)'))
                return TOP
            if l == 'Pt' and (r == 'Df' or L(r)):
                return 'Pt'
            if r == 'Pt' and (l == 'Df' or L(l)) and isinstance(op, ast.Add):
                return 'Pt'
            if l == r and l in ('Df', 'Df2', '1'):
                return l
            if L(l) and L(r):
                return ('lit', None)
            if (l in ('Df', '1') and L(r)) or (L(l) and r in ('Df', '1')):
                return l if not L(l) else r
            if {l, r} <= {'Pt', 'Df', 'Df2', '1'}:
                self.problems.append((node, fr.fn, f'combines a value of dimension {l} with one of dimension {r} by {"+" if isinstance(op, ast.Add) else "-"}'))
            return TOP
        if isinstance(op, ast.Mult):
            if L(l) and L(r):
                return ('lit', None)
            for a, b in ((l, r), (r, l)):
                if L(a) or a == '1':
                    return b
            if l == 'Df' and r == 'Df':
                return 'Df2'
            return TOP
        if isinstance(op, ast.Div):
            if L(r) or r == '1':
                return l
            if l == r and l in ('Df', 'Df2'):
                return '1'
            if l == 'Df2' and r == 'Df':
                return 'Df'
            if l == 'Pt' and r == 'Df':
                self.problems.append((node, fr.fn, 'divides a point of the data axis by a scale without subtracting a location first'))
            return TOP
        if isinstance(op, ast.Pow):
            if r == ('lit', 2) and l == 'Df':
                return 'Df2'
            if r == ('lit', 0.5) and l == 'Df2':
                return 'Df'
            if L(l) and L(r):
                return ('lit', None)
            return TOP
        return TOP

    def unaryop(self, node, v, fr):
        return v

    def subscript(self, node, base, fr):
        if base == 'DATA':
            return 'Pt' if not isinstance(node.slice, ast.Slice) else 'DATA'
        if isinstance(base, Tup):
            from .model import const_value
            i = const_value(node.slice)
            if isinstance(i, int) and -len(base.elems) <= i < len(base.elems):
                return base.elems[i]
        return TOP

    def sequence(self, node, vals, fr):
        return Tup(vals, 'list' if isinstance(node, ast.List) else 'tuple')

    def _reduce(self, name, arg):
        if arg != 'DATA':
            return None
        if name in self.POINT_FUNCS:
            return 'Pt'
        if name in self.DIFF_FUNCS:
            return 'Df'
        if name in self.SQ_FUNCS:
            return 'Df2'
        return None

    def external_call(self, name, node, fr):
        if name is None:
            return TOP
        leaf = name.split('.')[-1]
        a = node.args
        if a:
            r = self._reduce(leaf, self.value(a[0], fr))
            if r is not None:
                return r
        if leaf in ('sqrt',) and a:
            v = self.value(a[0], fr)
            return 'Df' if v == 'Df2' else (v if self.lit(v) else TOP)
        if leaf in ('abs', 'absolute') and a:
            return self.value(a[0], fr)
        if leaf == 'unique' and a and self.value(a[0], fr) == 'DATA':
            return 'DATA'
        if name in ('scipy.optimize.fmin_slsqp', 'scipy.optimize.fmin', 'scipy.optimize.fmin_bfgs'):
            x0 = kwarg(node, 'x0', 1)
            return self.value(x0, fr) if x0 is not None else TOP  # the minimiser has the dimensions of its start value
        if leaf == 'fit' and name.startswith('scipy.stats.'):
            dist = name[:-4]
            from . import contracts as K
            names = K.SCIPY_DIST_PARAMS.get(dist)
            if names:
                return Tup(['Pt' if n == 'loc' else 'Df' if n == 'scale' else '1' for n in names])
        return TOP

    def method_call(self, meth, node, recv, fr):
        r = self._reduce(meth, recv)
        if r is not None:
            return r
        if meth in ('to_numpy', 'copy', 'astype', 'tolist', 'ravel') and recv == 'DATA':
            return 'DATA'
        return None


# ============================================================================= dependence sets
class DepKind(AbsInt):
    """Which inputs (parameters, attributes of self) a value depends on by data flow: frozenset of source names."""
    MAX_DEPTH = 4

    def const(self, node, fr):
        return frozenset()

    def param(self, name, fr):
        v = fr.params.get(name)
        if isinstance(v, frozenset):
            return v
        return frozenset({'param:' + name})

    def self_attr(self, attr, node, fr):
        return frozenset({'self.' + attr})

    def global_name(self, dotted, node, fr):
        return frozenset()

    def join(self, a, b):
        if isinstance(a, frozenset) and isinstance(b, frozenset):
            return a | b
        if isinstance(a, Tup) and isinstance(b, Tup) and len(a.elems) == len(b.elems):
            return Tup([self.join(x, y) for x, y in zip(a.elems, b.elems)], a.kind)
        if a is BOT:
            return b
        if b is BOT:
            return a
        return self._u([a, b])

    def join_distinct(self, a, b):
        return self._u([a, b])

    def _u(self, vals):
        out = frozenset()
        for v in vals:
            if isinstance(v, frozenset):
                out |= v
            elif isinstance(v, Tup):
                out |= self._u(v.elems)
            elif v is TOP:
                out |= frozenset({'?'})
        return out

    def binop(self, node, l, r, fr):
        return self._u([l, r])

    def unaryop(self, node, v, fr):
        return self._u([v])

    def compare(self, node, fr):
        return self._u([self.value(node.left, fr)] + [self.value(c, fr) for c in node.comparators])

    def boolop(self, node, vals, fr):
        return self._u(vals)

    def subscript(self, node, base, fr):
        if isinstance(base, Tup):
            from .model import const_value
            i = const_value(node.slice)
            if isinstance(i, int) and -len(base.elems) <= i < len(base.elems):
                return base.elems[i]
        return self._u([base])

    def attribute(self, node, base, fr):
        return self._u([base])

    def sequence(self, node, vals, fr):
        return Tup(vals)

    def unpack(self, val, index, total, node, fr):
        if isinstance(val, Tup) and len(val.elems) == total:
            return val.elems[index]
        return self._u([val])

    def external_call(self, name, node, fr):
        if name and name.startswith('scipy.optimize.'):
            return frozenset({'optimiser result'})  # an estimate, not a function of how its bounds were written
        vals = [self.value(a, fr) for a in node.args] + [self.value(k.value, fr) for k in node.keywords]
        if isinstance(node.func, ast.Attribute):
            vals.append(self.value(node.func.value, fr))
        return self._u(vals)

    def method_call(self, meth, node, recv, fr):
        return self._u([recv] + [self.value(a, fr) for a in node.args])

    def local_call(self, name, node, fr):
        return self._u([self.value(a, fr) for a in node.args])

    def local_function(self, node, fr):
        return frozenset()

    def lambda_(self, node, fr):
        return frozenset()

    def comprehension(self, node, fr):
        return self._u([self.value(node.elt, fr)] + [self.value(g.iter, fr) for g in node.generators]) if hasattr(node, 'elt') else frozenset({'?'})

    def _value(self, e, fr):
        if isinstance(e, ast.IfExp):
            return self._u([self.value(e.test, fr), self.value(e.body, fr), self.value(e.orelse, fr)])
        return super()._value(e, fr)
