"""E5 - the kind systems (abstract domains on top of absint.AbsInt)."""

import ast

from .absint import BOT, TOP, AbsInt, Frame, Tup
from .model import call_name, const_value, is_self_attr, kwarg

# ===================================================================== E5d: length provenance
# values: ('n', sym)   a count (symbolic parameter or literal)
#         ('len', sym) an array-like / table with `sym` rows
#         ('scalar',)  a number
SCALAR = ('scalar',)

# numpy.random functions: position of the size argument
NP_RANDOM_SIZE_POS = {
    'uniform': 2, 'normal': 2, 'random': 0, 'random_sample': 0, 'exponential': 1, 'randint': 2, 'beta': 2,
    'gamma': 2, 'standard_normal': 0, 'rand': 0, 'randn': 0, 'choice': 1, 'multivariate_normal': 2,
    'lognormal': 2, 'poisson': 1, 'binomial': 2, 'sample': 0, 'ranf': 0, 'laplace': 2, 'logistic': 2,
}
ALLOC_FUNCS = {'numpy.full': 0, 'numpy.zeros': 0, 'numpy.ones': 0, 'numpy.empty': 0, 'numpy.arange': 0}
ELEMENTWISE_FUNCS = {
    'numpy.log', 'numpy.exp', 'numpy.abs', 'numpy.sqrt', 'numpy.power', 'numpy.asarray', 'numpy.array',
    'numpy.nan_to_num', 'numpy.clip', 'numpy.minimum', 'numpy.maximum', 'numpy.sort', 'numpy.cumsum',
    'pandas.Series', 'scipy.stats.norm.cdf', 'scipy.stats.norm.ppf', 'scipy.stats.norm.pdf',
    'scipy.special.ndtr', 'numpy.logical_and', 'numpy.logical_or', 'numpy.where', 'numpy.square',
    'numpy.negative', 'numpy.sign', 'abs', 'numpy.log1p', 'numpy.expm1', 'numpy.isnan', 'numpy.copy',
}
ELEMENTWISE_METHODS = {
    'astype', 'clip', 'copy', 'to_numpy', 'abs', 'round', 'cumsum', 'rank', 'fillna', 'sort_values',
    'percent_point', 'ppf', 'cdf', 'cumulative_distribution', 'pdf', 'probability_density',
    'log_probability_density', 'reset_index', 'tolist', 'ravel', 'flatten',
}


class LenKind(AbsInt):
    COUNT_PARAMS = ('size', 'num_rows', 'n_samples', 'num_samples', 'n')

    def const(self, node, fr):
        v = getattr(node, 'value', None)
        if isinstance(v, bool) or v is None:
            return SCALAR
        if isinstance(v, int):
            return ('n', v)
        return SCALAR

    def param(self, name, fr):
        if name in fr.params:
            return fr.params[name]
        if name in self.COUNT_PARAMS:
            return ('n', name)
        return TOP

    def _as_count(self, v):
        if isinstance(v, tuple) and v and v[0] == 'n':
            return v[1]
        return None

    def join_distinct(self, a, b):
        # a scalar or a count literal joined with itself was handled by ==; anything else is unknown
        return TOP

    def _elementwise(self, vals):
        sym = None
        for v in vals:
            if v is TOP or v is BOT:
                return TOP
            if isinstance(v, tuple) and v[0] == 'len':
                if sym is None:
                    sym = v[1]
                elif sym != v[1]:
                    return ('mismatch', sym, v[1])
            elif isinstance(v, tuple) and v[0] in ('n', 'scalar'):
                continue
            else:
                return TOP
        return ('len', sym) if sym is not None else SCALAR

    def binop(self, node, left, right, fr):
        return self._elementwise([left, right])

    def unaryop(self, node, operand, fr):
        return self._elementwise([operand])

    def compare(self, node, fr):
        return self._elementwise([self.value(node.left, fr)] + [self.value(c, fr) for c in node.comparators])

    def subscript(self, node, base, fr):
        return TOP

    def attribute(self, node, base, fr):
        if node.attr in ('values', 'T') and node.attr == 'values':
            return base
        return TOP

    def dict_literal(self, node, fr):
        return Tup([self.value(v, fr) for v in node.values], 'dict')

    def external_call(self, name, node, fr):
        if name is None:
            return TOP
        leaf = name.split('.')[-1]
        if name.startswith('numpy.random.') and leaf in NP_RANDOM_SIZE_POS:
            sz = kwarg(node, 'size', NP_RANDOM_SIZE_POS[leaf])
            if sz is None:
                return SCALAR
            c = self._as_count(self.value(sz, fr))
            return ('len', c) if c is not None else TOP
        if leaf == 'rvs':
            sz = kwarg(node, 'size')
            if sz is None:
                return SCALAR
            c = self._as_count(self.value(sz, fr))
            return ('len', c) if c is not None else TOP
        if name in ALLOC_FUNCS:
            sz = kwarg(node, 'shape', ALLOC_FUNCS[name])
            if sz is None:
                return TOP
            c = self._as_count(self.value(sz, fr))
            return ('len', c) if c is not None else TOP
        if name == 'numpy.linspace':
            sz = kwarg(node, 'num', 2)
            c = self._as_count(self.value(sz, fr)) if sz is not None else None
            return ('len', c) if c is not None else TOP
        if name in ELEMENTWISE_FUNCS:
            args = [self.value(a, fr) for a in node.args]
            return self._elementwise(args) if args else TOP
        if name in ('numpy.column_stack', 'numpy.stack', 'numpy.vstack', 'numpy.hstack'):
            if node.args:
                v = self.value(node.args[0], fr)
                if isinstance(v, Tup) and name == 'numpy.column_stack':
                    return self._elementwise(v.elems)
            return TOP
        if name == 'pandas.DataFrame':
            data = kwarg(node, 'data', 0)
            if data is None:
                return TOP
            v = self.value(data, fr)
            if isinstance(v, Tup) and v.kind == 'dict':
                if not any(isinstance(e, tuple) and e[0] == 'len' for e in v.elems):
                    return TOP
                return self._elementwise(v.elems)
            if isinstance(v, tuple) and v[0] in ('len', 'mismatch'):
                return v
            return TOP
        if name == 'range':
            if len(node.args) == 1:
                c = self._as_count(self.value(node.args[0], fr))
                return ('len', c) if c is not None else TOP
            return TOP
        if name in ('len',):
            if node.args:
                v = self.value(node.args[0], fr)
                if isinstance(v, tuple) and v[0] == 'len':
                    return ('n', v[1])
            return TOP
        return TOP

    def method_call(self, meth, node, recv, fr):
        if meth in ELEMENTWISE_METHODS:
            if meth in ('percent_point', 'ppf', 'cdf', 'cumulative_distribution', 'pdf', 'probability_density',
                        'log_probability_density'):
                return self._elementwise([self.value(a, fr) for a in node.args[:1]]) if node.args else TOP
            return recv if isinstance(recv, tuple) else TOP
        return None

    def project_call_override(self, g, node, fr):
        # model methods that are elementwise in their (first) argument
        if g.cls is not None and g.name in ('percent_point', 'ppf', 'cdf', 'cumulative_distribution', 'pdf',
                                             'probability_density') and node.args:
            # univariate: one argument; bivariate percent_point(y, V): both
            return self._elementwise([self.value(a, fr) for a in node.args])
        return None

    def name(self, node, fr):
        v = super().name(node, fr)
        if v is TOP or v is BOT:
            # list filled by exactly one append per iteration of `for _ in range(n)`
            acc = self._append_loop(node.id, node, fr)
            if acc is not None:
                return acc
        return v

    def _append_loop(self, nm, use, fr):
        binds = fr.bindings.get(nm, [])
        if len(binds) != 1 or binds[0].kind != 'assign' or not isinstance(binds[0].value, ast.List) \
                or binds[0].value.elts:
            return None
        appends = []
        from .model import walk_no_nested
        for n in walk_no_nested(fr.fn.node):
            if isinstance(n, ast.Call) and isinstance(n.func, ast.Attribute) and isinstance(n.func.value, ast.Name) \
                    and n.func.value.id == nm:
                if n.func.attr == 'append':
                    appends.append(n)
                else:
                    return None
        if len(appends) != 1:
            return None
        stmt = appends[0]._parent
        loop = getattr(stmt, '_parent', None)
        if not (isinstance(stmt, ast.Expr) and isinstance(loop, ast.For) and stmt in loop.body):
            return None
        # unconditional, no break/continue/return in the loop body
        for n in ast.walk(loop):
            if isinstance(n, (ast.Break, ast.Continue, ast.Return)):
                return None
        itv = self.value(loop.iter, fr)
        if isinstance(itv, tuple) and itv[0] == 'len' and not isinstance(getattr(loop, '_parent', None), (ast.For, ast.While)):
            return ('len', itv[1])
        return None

    def sequence(self, node, vals, fr):
        return Tup(vals, 'list' if isinstance(node, ast.List) else 'tuple')


def length_of_return(ctx, fn, concrete=None, params=None):
    lk = LenKind(ctx)
    fr = Frame(fn, params or {}, concrete)
    return lk.returns(fr), lk
