"""E1 - program model of /repo/copulas built from the syntax trees only.

Nothing in here imports or executes the analysed package.  A *source overlay*
(relative path -> text) replaces files in memory; that is how mutants and
behaviour-preserving rewrites are analysed without scratch copies on disk.
"""

import ast
import hashlib
import os

REPO = os.environ.get('COPSTAT_REPO', '/repo')
PKG = 'copulas'


class AnalysisError(Exception):
    """The analysis itself cannot run (vanished anchor, parse error, ...)."""


class PrivateAnchorMissing(AnalysisError):
    """A private helper (leading underscore) that a rule looks at is gone - renamed, inlined or split.  Private names are
    not part of the interface the properties anchor: the rules that needed it report UNDECIDED instead of failing the run."""

    def __init__(self, what):
        super().__init__(f'private helper not found: {what}')
        self.what = what


class MethodTable(dict):
    """methods of a class: a missing private name raises PrivateAnchorMissing instead of KeyError."""

    def __init__(self, owner, *a):
        super().__init__(*a)
        self.owner = owner

    def __missing__(self, key):
        if isinstance(key, str) and key.startswith('_') and not key.startswith('__'):
            raise PrivateAnchorMissing(f'{self.owner}.{key}')
        raise KeyError(key)


def clone(node):
    """Structural copy of an AST (or list of ASTs): fields and positions only.  `copy.deepcopy` would follow the `_parent` links that the
    model adds and copy the enclosing module with every expression."""
    if isinstance(node, list):
        return [clone(x) for x in node]
    if not isinstance(node, ast.AST):
        return node
    new = type(node)()
    for f in node._fields:
        if hasattr(node, f):
            setattr(new, f, clone(getattr(node, f)))
    for a in node._attributes:
        if hasattr(node, a):
            setattr(new, a, getattr(node, a))
    return new


class Module:
    def __init__(self, name, relpath, source, is_pkg):
        self.name = name
        self.relpath = relpath
        self.source = source
        self.is_pkg = is_pkg
        try:
            self.tree = ast.parse(source, filename=relpath)
        except SyntaxError as exc:  # pragma: no cover
            raise AnalysisError(f'parse error in {relpath}: {exc}')
        self.tree = orient_comparisons(split_conditional_callees(fold_dynamic_names(unroll_literal_loops(inline_string_constants(split_chained_assignments(suppress_to_try(wraps_call_to_decorator(inline_thunks(map_to_comprehension(self.tree))))))))))
        if os.environ.get('COPSTAT_INLINE_TEMPS', '1') != '0':
            self.tree = inline_adjacent_temporaries(hoist_walrus(self.tree))
        if os.environ.get('COPSTAT_EXPAND_IFEXP', '1') != '0':
            self.tree = expand_statement_ifexp(self.tree)
        for node in ast.walk(self.tree):
            for child in ast.iter_child_nodes(node):
                child._parent = node
        self.imports = {}  # local name -> dotted target
        self.toplevel = {}  # name -> ast node (FunctionDef / ClassDef / Assign value)
        self.all = None

    def __repr__(self):
        return f'<Module {self.name}>'


def _constant_tables(tree):
    """Module-level and class-level names bound once to a literal tuple/list of constants (or of such tuples)."""
    def lit(v):
        if isinstance(v, ast.Constant) and isinstance(v.value, (str, int)):
            return v.value
        if isinstance(v, (ast.Tuple, ast.List)) and v.elts and len(v.elts) <= 8:
            items = [lit(e) for e in v.elts]
            if all(i is not None for i in items):
                return tuple(items)
        return None

    tables = {}
    scopes = [('', tree.body)] + [(c.name + '.', c.body) for c in tree.body if isinstance(c, ast.ClassDef)]
    for prefix, body in scopes:
        counts = {}
        for st in body:
            if isinstance(st, ast.Assign) and len(st.targets) == 1 and isinstance(st.targets[0], ast.Name):
                counts[st.targets[0].id] = counts.get(st.targets[0].id, 0) + 1
        for st in body:
            if isinstance(st, ast.Assign) and len(st.targets) == 1 and isinstance(st.targets[0], ast.Name) and counts[st.targets[0].id] == 1:
                v = lit(st.value)
                if isinstance(v, tuple):
                    tables[prefix + st.targets[0].id] = v
    # a table that is rebound or mutated anywhere is not a constant
    for n in ast.walk(tree):
        if isinstance(n, ast.Attribute) and isinstance(n.ctx, (ast.Store, ast.Del)):
            for k in [k for k in tables if k.endswith('.' + n.attr)]:
                del tables[k]
    return tables


def orient_comparisons(tree):
    """Normalisation: a single comparison with a literal on the left and none on the right is written with the literal on the right
    (`0 >= x` -> `x <= 0`, `1 == n` -> `n == 1`, `None is x` stays).  Behaviour-preserving for the numeric and array operands of
    this package (the reflected operator is what Python evaluates)."""
    flip = {ast.Lt: ast.Gt, ast.Gt: ast.Lt, ast.LtE: ast.GtE, ast.GtE: ast.LtE, ast.Eq: ast.Eq, ast.NotEq: ast.NotEq}

    def lit(e):
        if isinstance(e, ast.UnaryOp) and isinstance(e.op, (ast.USub, ast.UAdd)):
            e = e.operand
        return isinstance(e, ast.Constant) and isinstance(e.value, (int, float)) and not isinstance(e.value, bool)

    class Orient(ast.NodeTransformer):
        def visit_Compare(self, node):
            self.generic_visit(node)
            if len(node.ops) == 1 and type(node.ops[0]) in flip and lit(node.left) and not lit(node.comparators[0]):
                return ast.copy_location(ast.Compare(left=node.comparators[0], ops=[flip[type(node.ops[0])]()], comparators=[node.left]), node)
            return node
    tree = Orient().visit(tree)

    # tests only (truth-value context): not (not a and not b) -> a or b; not (not a or not b) -> a and b; not not a -> a
    def neg_free(t):
        if isinstance(t, ast.UnaryOp) and isinstance(t.op, ast.Not):
            inner = t.operand
            if isinstance(inner, ast.UnaryOp) and isinstance(inner.op, ast.Not):
                return neg_free(inner.operand)
            if isinstance(inner, ast.BoolOp) and all(isinstance(v, ast.UnaryOp) and isinstance(v.op, ast.Not) for v in inner.values):
                op = ast.Or() if isinstance(inner.op, ast.And) else ast.And()
                return ast.copy_location(ast.BoolOp(op=op, values=[neg_free(v.operand) for v in inner.values]), t)
            return ast.copy_location(ast.UnaryOp(op=ast.Not(), operand=neg_free(inner)), t)
        if isinstance(t, ast.BoolOp):
            return ast.copy_location(ast.BoolOp(op=t.op, values=[neg_free(v) for v in t.values]), t)
        return t
    for n in ast.walk(tree):
        if isinstance(n, (ast.If, ast.While, ast.IfExp, ast.Assert)):
            n.test = neg_free(n.test)
    ast.fix_missing_locations(tree)
    return tree


def _stmt_blocks(node):
    for f in ('body', 'orelse', 'finalbody'):
        v = getattr(node, f, None)
        if isinstance(v, list) and v and isinstance(v[0], ast.stmt):
            yield node, f, v
    if isinstance(node, ast.Try):
        for h in node.handlers:
            yield h, 'body', h.body


def record_types(tree):
    """{class name: [field names]} for module-level `Name = namedtuple('Name', [...])` / `namedtuple('Name', 'a b c')` definitions."""
    out = {}
    for n in tree.body:
        if isinstance(n, ast.Assign) and len(n.targets) == 1 and isinstance(n.targets[0], ast.Name) and isinstance(n.value, ast.Call) \
                and ((isinstance(n.value.func, ast.Name) and n.value.func.id == 'namedtuple') or (isinstance(n.value.func, ast.Attribute) and n.value.func.attr == 'namedtuple')) \
                and len(n.value.args) >= 2 and not n.value.keywords:
            f = n.value.args[1]
            fields = None
            if isinstance(f, (ast.List, ast.Tuple)) and all(isinstance(e, ast.Constant) and isinstance(e.value, str) for e in f.elts):
                fields = [e.value for e in f.elts]
            elif isinstance(f, ast.Constant) and isinstance(f.value, str):
                fields = f.value.replace(',', ' ').split()
            if fields and all(x.isidentifier() for x in fields):
                out[n.targets[0].id] = fields
    return out


def scalarize_records(fnnode, records):
    """Normalisation inside one function: a local that only ever holds freshly constructed records of one namedtuple type
    (`p = _Rec(a=.., b=..)`), and is only used as `p.field`, unpacked completely (`x, y = p`) or iterated by a comprehension, is replaced by one
    local per field (`p__a`, `p__b`).  A record that is returned, passed on whole, starred or compared keeps its form.  Returns True when something changed."""
    import copy
    if not records:
        return False
    stores = {}
    for x in walk_no_nested(fnnode):
        if isinstance(x, ast.Name) and isinstance(x.ctx, (ast.Store, ast.Del)):
            stores.setdefault(x.id, []).append(x)
    params = {a.arg for a in fnnode.args.posonlyargs + fnnode.args.args + fnnode.args.kwonlyargs}
    changed = False
    for name, sts in list(stores.items()):
        if name in params:
            continue
        ctor = None
        ok = True
        assigns = []
        for st in sts:
            par = getattr(st, '_parent', None)
            if not (isinstance(par, ast.Assign) and len(par.targets) == 1 and par.targets[0] is st and isinstance(par.value, ast.Call)
                    and isinstance(par.value.func, ast.Name) and par.value.func.id in records):
                ok = False
                break
            c = par.value
            fields = records[c.func.id]
            if ctor not in (None, c.func.id) or any(isinstance(a, ast.Starred) for a in c.args) or any(k.arg is None for k in c.keywords) \
                    or len(c.args) + len(c.keywords) != len(fields) or any(k.arg not in fields[len(c.args):] for k in c.keywords):
                ok = False
                break
            ctor = c.func.id
            assigns.append(par)
        if not ok or ctor is None:
            continue
        fields = records[ctor]
        loads = [x for x in walk_no_nested(fnnode) if isinstance(x, ast.Name) and x.id == name and isinstance(x.ctx, ast.Load)]
        # nested functions reading the record keep it
        if any(isinstance(x, ast.Name) and x.id == name for d in ast.walk(fnnode) if isinstance(d, (ast.FunctionDef, ast.AsyncFunctionDef, ast.Lambda)) and d is not fnnode for x in ast.walk(d)):
            continue
        uses = []
        for ld in loads:
            par = getattr(ld, '_parent', None)
            if isinstance(par, ast.Attribute) and par.value is ld and par.attr in fields and isinstance(par.ctx, ast.Load):
                uses.append(('attr', ld, par))
            elif isinstance(par, ast.Assign) and par.value is ld and len(par.targets) == 1 and isinstance(par.targets[0], (ast.Tuple, ast.List)) \
                    and len(par.targets[0].elts) == len(fields) and not any(isinstance(e, ast.Starred) for e in par.targets[0].elts):
                uses.append(('unpack', ld, par))
            elif isinstance(par, ast.comprehension) and par.iter is ld:
                uses.append(('iter', ld, par))
            else:
                uses = None
                break
        if uses is None:
            continue
        fname = lambda f_: f'{name}__{f_}'
        if any(fname(f_) in stores for f_ in fields):
            continue
        # rewrite uses
        for kind, ld, par in uses:
            if kind == 'attr':
                new = ast.copy_location(ast.Name(id=fname(par.attr), ctx=ast.Load()), par)
                gp = par._parent
                for fld, val in ast.iter_fields(gp):
                    if val is par:
                        setattr(gp, fld, new)
                    elif isinstance(val, list):
                        for i_, v_ in enumerate(val):
                            if v_ is par:
                                val[i_] = new
                new._parent = gp
            elif kind == 'unpack':
                par.value = ast.copy_location(ast.Tuple(elts=[ast.Name(id=fname(f_), ctx=ast.Load()) for f_ in fields], ctx=ast.Load()), ld)
            else:
                par.iter = ast.copy_location(ast.Tuple(elts=[ast.Name(id=fname(f_), ctx=ast.Load()) for f_ in fields], ctx=ast.Load()), ld)
        # rewrite constructions (after the uses, so that constructor arguments reading the old record already name the fields)
        for a in assigns:
            c = a.value
            vals = dict(zip(fields, c.args))
            vals.update({k.arg: k.value for k in c.keywords})
            reads_self = any(isinstance(x, ast.Name) and x.id.startswith(name + '__') for v in vals.values() for x in ast.walk(v))
            new_stmts = []
            if reads_self:
                for f_ in fields:
                    new_stmts.append(ast.copy_location(ast.Assign(targets=[ast.Name(id=f'_new_{name}__{f_}', ctx=ast.Store())], value=vals[f_]), a))
                for f_ in fields:
                    new_stmts.append(ast.copy_location(ast.Assign(targets=[ast.Name(id=fname(f_), ctx=ast.Store())], value=ast.Name(id=f'_new_{name}__{f_}', ctx=ast.Load())), a))
            else:
                for f_ in fields:
                    new_stmts.append(ast.copy_location(ast.Assign(targets=[ast.Name(id=fname(f_), ctx=ast.Store())], value=vals[f_]), a))
            holder = a._parent
            for fld, val in ast.iter_fields(holder):
                if isinstance(val, list) and a in val:
                    i_ = val.index(a)
                    val[i_:i_ + 1] = new_stmts
        changed = True
        ast.fix_missing_locations(fnnode)
        for parent in ast.walk(fnnode):
            for child in ast.iter_child_nodes(parent):
                child._parent = parent
    return changed


def map_to_comprehension(tree):
    """Normalisation: `list(map(f, xs))` / `tuple(map(f, xs))` become `[f(x) for x in xs]` (wrapped in tuple(...) for the tuple form), with
    operator.methodcaller / itemgetter / attrgetter and lambdas applied symbolically: `map(methodcaller('to_dict'), xs)` -> `x.to_dict()`.
    `itertools.starmap(f, xs)` likewise with `f(*x)`.  Only fully consumed maps (list / tuple / sorted / set is not order-preserving and is left alone)."""
    import copy
    ops, opmods, itmods, starmaps = {}, set(), set(), set()
    for n in tree.body:
        if isinstance(n, ast.ImportFrom) and n.module == 'operator':
            for a in n.names:
                if a.name in ('methodcaller', 'itemgetter', 'attrgetter'):
                    ops[a.asname or a.name] = a.name
        elif isinstance(n, ast.ImportFrom) and n.module == 'itertools':
            starmaps |= {a.asname or a.name for a in n.names if a.name == 'starmap'}
        elif isinstance(n, ast.Import):
            opmods |= {a.asname or a.name for a in n.names if a.name == 'operator'}
            itmods |= {a.asname or a.name for a in n.names if a.name == 'itertools'}
    counter = [0]

    def op_kind(f):
        if isinstance(f, ast.Call) and isinstance(f.func, ast.Name) and f.func.id in ops:
            return ops[f.func.id]
        if isinstance(f, ast.Call) and isinstance(f.func, ast.Attribute) and isinstance(f.func.value, ast.Name) and f.func.value.id in opmods \
                and f.func.attr in ('methodcaller', 'itemgetter', 'attrgetter'):
            return f.func.attr
        return None

    def apply(f, var, star):
        x = ast.Name(id=var, ctx=ast.Load())
        k = op_kind(f)
        if k == 'methodcaller' and f.args and isinstance(f.args[0], ast.Constant) and isinstance(f.args[0].value, str) and not star:
            return ast.Call(func=ast.Attribute(value=x, attr=f.args[0].value, ctx=ast.Load()), args=list(f.args[1:]), keywords=list(f.keywords))
        if k == 'itemgetter' and len(f.args) == 1 and not f.keywords and not star:
            return ast.Subscript(value=x, slice=f.args[0], ctx=ast.Load())
        if k == 'attrgetter' and len(f.args) == 1 and isinstance(f.args[0], ast.Constant) and isinstance(f.args[0].value, str) and '.' not in f.args[0].value and not star:
            return ast.Attribute(value=x, attr=f.args[0].value, ctx=ast.Load())
        if k is not None:
            return None
        if isinstance(f, ast.Lambda) and not star and len(f.args.args) == 1 and not (f.args.vararg or f.args.kwarg or f.args.kwonlyargs or f.args.defaults):
            class Sub(ast.NodeTransformer):
                def visit_Name(self, n):
                    return ast.copy_location(ast.Name(id=var, ctx=n.ctx), n) if n.id == f.args.args[0].arg else n
            return Sub().visit(clone(f.body))
        if isinstance(f, (ast.Name, ast.Attribute)):
            return ast.Call(func=f, args=[ast.Starred(value=x, ctx=ast.Load())] if star else [x], keywords=[])
        return None

    class T(ast.NodeTransformer):
        def visit_Call(self, node):
            self.generic_visit(node)
            if isinstance(node.func, ast.Name) and node.func.id in ('list', 'tuple') and len(node.args) == 1 and not node.keywords and isinstance(node.args[0], ast.Call):
                m = node.args[0]
                star = (isinstance(m.func, ast.Name) and m.func.id in starmaps) or \
                       (isinstance(m.func, ast.Attribute) and m.func.attr == 'starmap' and isinstance(m.func.value, ast.Name) and m.func.value.id in itmods)
                if ((isinstance(m.func, ast.Name) and m.func.id == 'map') or star) and len(m.args) == 2 and not m.keywords:
                    counter[0] += 1
                    var = f'_m{counter[0]}'
                    elt = apply(m.args[0], var, star)
                    if elt is not None:
                        comp = ast.ListComp(elt=elt, generators=[ast.comprehension(target=ast.Name(id=var, ctx=ast.Store()), iter=m.args[1], ifs=[], is_async=0)])
                        ast.copy_location(comp, node)
                        if node.func.id == 'tuple':
                            node.args = [comp]
                            return node
                        return comp
            return node
    tree = T().visit(tree)

    # `for x in map(itemgetter(k), xs): body`  ->  `for _r in xs: x = _r[k]; body`   (itemgetter / attrgetter have no effects of their own)
    for n in ast.walk(tree):
        if isinstance(n, ast.For) and isinstance(n.iter, ast.Call) and isinstance(n.iter.func, ast.Name) and n.iter.func.id == 'map' and len(n.iter.args) == 2 \
                and not n.iter.keywords and op_kind(n.iter.args[0]) in ('itemgetter', 'attrgetter') and isinstance(n.target, ast.Name):
            counter[0] += 1
            var = f'_m{counter[0]}'
            elt = apply(n.iter.args[0], var, False)
            if elt is not None:
                tname = n.target.id
                if any(isinstance(x, ast.Name) and x.id == tname and isinstance(x.ctx, (ast.Store, ast.Del)) for b in n.body for x in ast.walk(b)) or n.orelse:
                    first = ast.copy_location(ast.Assign(targets=[ast.Name(id=tname, ctx=ast.Store())], value=elt), n)
                    n.body = [first] + n.body
                else:
                    class SubT(ast.NodeTransformer):
                        def visit_Name(self, x):
                            if x.id == tname and isinstance(x.ctx, ast.Load):
                                e = clone(elt)
                                for y in ast.walk(e):
                                    ast.copy_location(y, x)
                                return e
                            return x
                    n.body = [SubT().visit(b) for b in n.body]
                n.iter = n.iter.args[1]
                n.target = ast.copy_location(ast.Name(id=var, ctx=ast.Store()), n.target)
    ast.fix_missing_locations(tree)
    return tree


def inline_thunks(tree):
    """Normalisation: a nested `def name(): return <expr>` (no parameters, no decorators, a single return after the docstring, never
    re-bound, only ever called as `name()` in the enclosing function itself) is removed and every `name()` becomes `<expr>`.
    A closure reads the enclosing variables when it is called, which is where the expression now stands."""
    import copy
    for fn in [n for n in ast.walk(tree) if isinstance(n, (ast.FunctionDef, ast.AsyncFunctionDef))]:
        for d in [s for s in fn.body if isinstance(s, ast.FunctionDef)]:
            a = d.args
            if a.args or a.posonlyargs or a.kwonlyargs or a.vararg or a.kwarg or d.decorator_list:
                continue
            body = d.body[1:] if d.body and isinstance(d.body[0], ast.Expr) and isinstance(d.body[0].value, ast.Constant) and isinstance(d.body[0].value.value, str) else d.body
            if len(body) != 1 or not isinstance(body[0], ast.Return) or body[0].value is None:
                continue
            expr = body[0].value
            if any(isinstance(x, (ast.Yield, ast.YieldFrom, ast.Await, ast.NamedExpr, ast.Lambda)) for x in ast.walk(expr)):
                continue
            refs = [x for s in fn.body if s is not d for x in ast.walk(s) if isinstance(x, ast.Name) and x.id == d.name]
            calls = [x for s in fn.body if s is not d for x in ast.walk(s) if isinstance(x, ast.Call) and isinstance(x.func, ast.Name) and x.func.id == d.name
                     and not x.args and not x.keywords]
            # calls inside other nested functions would read *their* enclosing variables the same way, but keep it simple: top-level statements only
            nested_refs = [x for s in fn.body if s is not d and isinstance(s, (ast.FunctionDef, ast.AsyncFunctionDef, ast.ClassDef)) for x in ast.walk(s)
                           if isinstance(x, ast.Name) and x.id == d.name]
            if not calls or len(refs) != len(calls) or nested_refs or any(isinstance(x.ctx, ast.Store) for x in refs):
                continue
            # the definition must come before its calls in the body (it always does for working code) and not sit under a condition
            class Sub(ast.NodeTransformer):
                def visit_Call(self, n):
                    self.generic_visit(n)
                    if isinstance(n.func, ast.Name) and n.func.id == d.name and not n.args and not n.keywords:
                        e = clone(expr)
                        for x in ast.walk(e):
                            ast.copy_location(x, n)
                        return e
                    return n
            new_body = []
            for s in fn.body:
                if s is d:
                    continue
                new_body.append(Sub().visit(s))
            fn.body = new_body
    ast.fix_missing_locations(tree)
    return tree


def wraps_call_to_decorator(tree):
    """Normalisation: `def inner(...): ...` followed (in the same function) by `return functools.wraps(f)(inner)` becomes
    `@functools.wraps(f) def inner` and `return inner` (update_wrapper returns the wrapper it was given)."""
    local, mods = set(), set()
    for n in tree.body:
        if isinstance(n, ast.ImportFrom) and n.module == 'functools':
            local |= {a.asname or a.name for a in n.names if a.name == 'wraps'}
        elif isinstance(n, ast.Import):
            mods |= {a.asname or a.name for a in n.names if a.name == 'functools'}
    if not local and not mods:
        return tree

    def is_wraps(c):
        return isinstance(c, ast.Call) and len(c.args) == 1 and not c.keywords and (
            (isinstance(c.func, ast.Name) and c.func.id in local) or
            (isinstance(c.func, ast.Attribute) and c.func.attr == 'wraps' and isinstance(c.func.value, ast.Name) and c.func.value.id in mods))
    for fn in [n for n in ast.walk(tree) if isinstance(n, (ast.FunctionDef, ast.AsyncFunctionDef))]:
        inner = {s.name: s for s in fn.body if isinstance(s, ast.FunctionDef)}
        for st in fn.body:
            v = st.value if isinstance(st, ast.Return) else None
            if isinstance(v, ast.Call) and is_wraps(v.func) and len(v.args) == 1 and not v.keywords and isinstance(v.args[0], ast.Name) and v.args[0].id in inner:
                d = inner[v.args[0].id]
                # the decorator argument must mean the same at the def as at the return: a parameter of the outer function never re-bound
                arg = v.func.args[0]
                rebound = {x.id for x in ast.walk(fn) if isinstance(x, ast.Name) and isinstance(x.ctx, ast.Store)}
                if isinstance(arg, ast.Name) and arg.id not in rebound and not d.decorator_list:
                    d.decorator_list = [v.func]
                    st.value = ast.copy_location(ast.Name(id=d.name, ctx=ast.Load()), v)
    ast.fix_missing_locations(tree)
    return tree


def suppress_to_try(tree):
    """Normalisation: `with contextlib.suppress(E, ...): body` (one item, no `as`) becomes `try: body / except (E, ...): pass`."""
    local = set()      # names bound to contextlib.suppress in this module
    mods = set()       # names bound to the contextlib module
    for n in tree.body:
        if isinstance(n, ast.ImportFrom) and n.module == 'contextlib':
            local |= {a.asname or a.name for a in n.names if a.name == 'suppress'}
        elif isinstance(n, ast.Import):
            mods |= {a.asname or a.name for a in n.names if a.name == 'contextlib'}
    if not local and not mods:
        return tree
    for node in list(ast.walk(tree)):
        for holder, f, blk in list(_stmt_blocks(node)):
            out = []
            for st in blk:
                ce = st.items[0].context_expr if isinstance(st, ast.With) and len(st.items) == 1 and st.items[0].optional_vars is None else None
                is_sup = isinstance(ce, ast.Call) and not ce.keywords and ce.args and (
                    (isinstance(ce.func, ast.Name) and ce.func.id in local) or
                    (isinstance(ce.func, ast.Attribute) and ce.func.attr == 'suppress' and isinstance(ce.func.value, ast.Name) and ce.func.value.id in mods))
                if is_sup and not any(isinstance(a, ast.Starred) for a in ce.args):
                    typ = ce.args[0] if len(ce.args) == 1 else ast.Tuple(elts=list(ce.args), ctx=ast.Load())
                    h = ast.ExceptHandler(type=typ, name=None, body=[ast.copy_location(ast.Pass(), st)])
                    out.append(ast.copy_location(ast.Try(body=st.body, handlers=[ast.copy_location(h, st)], orelse=[], finalbody=[]), st))
                else:
                    out.append(st)
            setattr(holder, f, out)
    ast.fix_missing_locations(tree)
    return tree


def split_chained_assignments(tree):
    """Normalisation: `a.x = name = <expr>` (one of the targets a plain local name) becomes `name = <expr>` followed by the other targets
    bound to `name`.  The value is evaluated once in both forms; only the order in which the targets are bound differs, which is
    unobservable for plain names and ordinary attributes."""
    for node in list(ast.walk(tree)):
        for holder, f, blk in list(_stmt_blocks(node)):
            if not any(isinstance(st, ast.Assign) and len(st.targets) > 1 for st in blk):
                continue
            out = []
            for st in blk:
                names = [t for t in st.targets if isinstance(t, ast.Name)] if isinstance(st, ast.Assign) and len(st.targets) > 1 else []
                if names and all(isinstance(t, (ast.Name, ast.Attribute, ast.Subscript)) for t in st.targets):
                    first = names[0]
                    out.append(ast.copy_location(ast.Assign(targets=[first], value=st.value), st))
                    for t in st.targets:
                        if t is not first:
                            out.append(ast.copy_location(ast.Assign(targets=[t], value=ast.copy_location(ast.Name(id=first.id, ctx=ast.Load()), st)), st))
                else:
                    out.append(st)
            setattr(holder, f, out)
    ast.fix_missing_locations(tree)
    return tree


def hoist_walrus(tree):
    """Normalisation: `if <test whose first evaluated operand is (x := e)>:` becomes `x = e` followed by the test reading `x`.
    Only `if` statements (a `while` test is re-evaluated) and only the leftmost evaluation position, so the order of evaluation is kept."""
    def leftmost(holder, field, index=None):
        e = getattr(holder, field) if index is None else getattr(holder, field)[index]
        if isinstance(e, ast.NamedExpr) and isinstance(e.target, ast.Name):
            return holder, field, index, e
        if isinstance(e, ast.Compare):
            return leftmost(e, 'left')
        if isinstance(e, ast.UnaryOp):
            return leftmost(e, 'operand')
        if isinstance(e, ast.BoolOp):
            return leftmost(e, 'values', 0)
        if isinstance(e, ast.BinOp):
            return leftmost(e, 'left')
        if isinstance(e, ast.Call):
            if isinstance(e.func, ast.Attribute):
                hit = leftmost(e.func, 'value')        # the callee expression is evaluated before the arguments
                if hit is not None:
                    return hit
            plain = e.func
            while isinstance(plain, ast.Attribute):
                plain = plain.value
            if isinstance(plain, ast.Name) and e.args and not isinstance(e.args[0], ast.Starred):
                return leftmost(e, 'args', 0)
            return None
        if isinstance(e, ast.Attribute):
            return leftmost(e, 'value')
        if isinstance(e, ast.Subscript):
            return leftmost(e, 'value')
        return None
    for node in list(ast.walk(tree)):
        for holder, f, blk in list(_stmt_blocks(node)):
            out = []
            for st in blk:
                if isinstance(st, ast.If):
                    for _ in range(4):
                        hit = leftmost(st, 'test')
                        if hit is None:
                            break
                        h2, f2, i2, ne = hit
                        out.append(ast.copy_location(ast.Assign(targets=[ast.Name(id=ne.target.id, ctx=ast.Store())], value=ne.value), st))
                        ref = ast.copy_location(ast.Name(id=ne.target.id, ctx=ast.Load()), ne)
                        if i2 is None:
                            setattr(h2, f2, ref)
                        else:
                            getattr(h2, f2)[i2] = ref
                out.append(st)
            setattr(holder, f, out)
    ast.fix_missing_locations(tree)
    return tree


def expand_statement_ifexp(tree):
    """Normalisation: `return a if c else b` becomes `if c: return a / else: return b`; `x = a if c else b` (x a plain name or an
    attribute of a plain name) becomes `if c: x = a / else: x = b`.  Behaviour-preserving; path-sensitive rules then see branches."""
    import copy
    for node in list(ast.walk(tree)):
        for holder, f, blk in list(_stmt_blocks(node)):
            out = []
            for st in blk:
                if isinstance(st, ast.Return) and isinstance(st.value, ast.IfExp):
                    ie = st.value
                    out.append(ast.copy_location(ast.If(test=ie.test, body=[ast.copy_location(ast.Return(value=ie.body), st)],
                                                        orelse=[ast.copy_location(ast.Return(value=ie.orelse), st)]), st))
                elif isinstance(st, ast.Assign) and isinstance(st.value, ast.IfExp) and len(st.targets) == 1 and \
                        (isinstance(st.targets[0], ast.Name) or (isinstance(st.targets[0], ast.Attribute) and isinstance(st.targets[0].value, ast.Name))):
                    ie = st.value
                    mk = lambda v: ast.copy_location(ast.Assign(targets=[clone(st.targets[0])], value=v), st)
                    out.append(ast.copy_location(ast.If(test=ie.test, body=[mk(ie.body)], orelse=[mk(ie.orelse)]), st))
                else:
                    out.append(st)
            setattr(holder, f, out)
    ast.fix_missing_locations(tree)
    return tree


def inline_adjacent_temporaries(tree):
    """Normalisation: `t = <expr>` immediately followed by `return t`, where `t` is a local bound only here and read only there,
    becomes `return <expr>`.  Behaviour-preserving.  (Inlining a temporary into a larger return expression would be just as
    sound, but the rules are written for the shapes in which draws and intermediate results have names.)"""
    def eval_order(node):
        """Sub-expressions in Python's evaluation order (for the node kinds that matter); yields nodes."""
        if isinstance(node, ast.Call):
            yield from eval_order(node.func)
            for a in node.args:
                yield from eval_order(a)
            for k in node.keywords:
                yield from eval_order(k.value)
            yield node
        elif isinstance(node, ast.Attribute):
            yield from eval_order(node.value)
            yield node
        elif isinstance(node, ast.BinOp):
            yield from eval_order(node.left)
            yield from eval_order(node.right)
            yield node
        elif isinstance(node, ast.Compare):
            yield from eval_order(node.left)
            for c in node.comparators:
                yield from eval_order(c)
            yield node
        elif isinstance(node, ast.Subscript):
            yield from eval_order(node.value)
            yield from eval_order(node.slice)
            yield node
        elif isinstance(node, (ast.Tuple, ast.List)):
            for e in node.elts:
                yield from eval_order(e)
            yield node
        elif isinstance(node, ast.UnaryOp):
            yield from eval_order(node.operand)
            yield node
        elif isinstance(node, ast.Starred):
            yield from eval_order(node.value)
        else:
            yield node

    class Sub(ast.NodeTransformer):
        def __init__(self, name, expr):
            self.name, self.expr = name, expr

        def visit_Name(self, n):
            if n.id == self.name and isinstance(n.ctx, ast.Load):
                return self.expr
            return n

    def process(fn):
        stores, loads = {}, {}
        for x in ast.walk(fn):
            if isinstance(x, ast.Name):
                d = stores if isinstance(x.ctx, (ast.Store, ast.Del)) else loads
                d[x.id] = d.get(x.id, 0) + 1
        params = {a.arg for a in fn.args.posonlyargs + fn.args.args + fn.args.kwonlyargs}
        # number of adjacent `t = e; return t` pairs per name: a name all of whose stores and loads are such pairs can be inlined
        # at each of them (every return ends its path)
        pairs = {}
        for x in ast.walk(fn):
            for f_ in ('body', 'orelse', 'finalbody'):
                blk = getattr(x, f_, None)
                if isinstance(blk, list):
                    for s0, s1 in zip(blk, blk[1:]):
                        if isinstance(s0, ast.Assign) and len(s0.targets) == 1 and isinstance(s0.targets[0], ast.Name) and isinstance(s1, ast.Return) \
                                and isinstance(s1.value, ast.Name) and s1.value.id == s0.targets[0].id:
                            pairs[s0.targets[0].id] = pairs.get(s0.targets[0].id, 0) + 1
            if isinstance(x, ast.Try):
                for h in x.handlers:
                    for s0, s1 in zip(h.body, h.body[1:]):
                        if isinstance(s0, ast.Assign) and len(s0.targets) == 1 and isinstance(s0.targets[0], ast.Name) and isinstance(s1, ast.Return) \
                                and isinstance(s1.value, ast.Name) and s1.value.id == s0.targets[0].id:
                            pairs[s0.targets[0].id] = pairs.get(s0.targets[0].id, 0) + 1

        def _cond_pair(s0, s1):
            if not (isinstance(s0, ast.Assign) and len(s0.targets) == 1 and isinstance(s0.targets[0], ast.Name) and isinstance(s1, ast.If)):
                return False
            t_ = s1.test
            while isinstance(t_, ast.UnaryOp) and isinstance(t_.op, ast.Not):
                t_ = t_.operand
            return isinstance(t_, ast.Name) and t_.id == s0.targets[0].id
        cpairs = {}
        for x in ast.walk(fn):
            blks = [getattr(x, f_, None) for f_ in ('body', 'orelse', 'finalbody')]
            if isinstance(x, ast.Try):
                blks += [h.body for h in x.handlers]
            for blk in blks:
                if isinstance(blk, list):
                    for s0, s1 in zip(blk, blk[1:]):
                        if _cond_pair(s0, s1):
                            cpairs[s0.targets[0].id] = cpairs.get(s0.targets[0].id, 0) + 1

        def block(stmts):
            out = []
            i = 0
            while i < len(stmts):
                s = stmts[i]
                for f in ('body', 'orelse', 'finalbody'):
                    v = getattr(s, f, None)
                    if isinstance(v, list) and v and isinstance(v[0], ast.stmt) and not isinstance(s, (ast.FunctionDef, ast.AsyncFunctionDef, ast.ClassDef)):
                        setattr(s, f, block(v))
                if isinstance(s, ast.Try):
                    for h in s.handlers:
                        h.body = block(h.body)
                nxt = stmts[i + 1] if i + 1 < len(stmts) else None
                if isinstance(s, ast.Assign) and len(s.targets) == 1 and isinstance(s.targets[0], ast.Name) and isinstance(nxt, ast.If):
                    # `c = <test>; if c:` (c bound here only, read there only) -> `if <test>:`
                    name = s.targets[0].id
                    t_ = nxt.test
                    neg_ = False
                    while isinstance(t_, ast.UnaryOp) and isinstance(t_.op, ast.Not):
                        t_, neg_ = t_.operand, not neg_
                    if isinstance(t_, ast.Name) and t_.id == name and name not in params and stores.get(name) == loads.get(name) == cpairs.get(name) \
                            and not isinstance(s.value, (ast.Lambda, ast.Yield, ast.YieldFrom, ast.Await, ast.NamedExpr)):
                        nxt.test = ast.copy_location(ast.UnaryOp(op=ast.Not(), operand=s.value), nxt.test) if neg_ else s.value
                        i += 1
                        continue
                if isinstance(s, ast.Assign) and len(s.targets) == 1 and isinstance(s.targets[0], ast.Name) and isinstance(nxt, ast.Return) and isinstance(nxt.value, ast.Name):
                    name = s.targets[0].id
                    if name not in params and stores.get(name) == loads.get(name) == pairs.get(name) and not isinstance(s.value, (ast.Lambda, ast.Yield, ast.YieldFrom, ast.Await, ast.NamedExpr)):
                        pure_before = True
                        found = False
                        for sub in eval_order(nxt.value):
                            if isinstance(sub, ast.Name) and sub.id == name:
                                found = True
                                break
                            if isinstance(sub, (ast.Call, ast.BinOp, ast.Subscript, ast.Compare)):
                                pure_before = False
                                break
                        if found and pure_before:
                            nxt.value = Sub(name, s.value).visit(nxt.value)
                            i += 1
                            continue
                out.append(s)
                i += 1
            return out
        fn.body = block(fn.body)

    for node in ast.walk(tree):
        if isinstance(node, (ast.FunctionDef, ast.AsyncFunctionDef)):
            process(node)
    ast.fix_missing_locations(tree)
    return tree


def split_conditional_callees(tree):
    """Normalisation: `f = A if c else B` (c a plain name, A and B names or attribute references) followed in the same block by a
    statement `f(args)` / `x = f(args)` / `return f(args)` becomes `if c: A(args) else: B(args)` (the binding of f is kept).
    Behaviour-preserving when neither c nor f is re-bound in between; restores the branch structure for path-sensitive rules."""
    import copy

    def rewrite_block(body):
        out = []
        pending = {}  # f -> (test name, A, B)
        for st in body:
            for field in ('body', 'orelse', 'finalbody'):
                sub = getattr(st, field, None)
                if isinstance(sub, list) and sub and isinstance(sub[0], ast.stmt):
                    setattr(st, field, rewrite_block(sub))
            if isinstance(st, ast.Try):
                for h in st.handlers:
                    h.body = rewrite_block(h.body)
            stored = {x.id for x in ast.walk(st) if isinstance(x, ast.Name) and isinstance(x.ctx, ast.Store)}
            call = None
            if isinstance(st, ast.Expr) and isinstance(st.value, ast.Call):
                call = st.value
            elif isinstance(st, (ast.Assign, ast.Return)) and isinstance(st.value, ast.Call):
                call = st.value
            if call is not None and isinstance(call.func, ast.Name) and call.func.id in pending:
                test, a, b = pending[call.func.id]

                def variant(target):
                    s2 = clone(st)
                    c2 = s2.value
                    c2.func = clone(target)
                    return s2
                new = ast.copy_location(ast.If(test=ast.Name(id=test, ctx=ast.Load()), body=[variant(a)], orelse=[variant(b)]), st)
                out.append(new)
                continue
            for k in list(pending):
                if k in stored or pending[k][0] in stored:
                    del pending[k]
            if isinstance(st, ast.Assign) and len(st.targets) == 1 and isinstance(st.targets[0], ast.Name) and isinstance(st.value, ast.IfExp) \
                    and isinstance(st.value.test, ast.Name) and all(isinstance(x, (ast.Name, ast.Attribute)) for x in (st.value.body, st.value.orelse)):
                pending[st.targets[0].id] = (st.value.test.id, st.value.body, st.value.orelse)
            out.append(st)
        return out

    for node in ast.walk(tree):
        if isinstance(node, (ast.FunctionDef, ast.AsyncFunctionDef)):
            node.body = rewrite_block(node.body)
    ast.fix_missing_locations(tree)
    return tree


def inline_string_constants(tree):
    """Normalisation: a module-level name bound exactly once, at top level, to a string or number literal (`_TYPE_KEY = 'type'`,
    `_SOURCE_COLUMN = 'Data'`, `_N_COLUMNS = 2`) is replaced by the literal wherever it is loaded inside a function or class of the module in
    which no local of that name exists.  Behaviour-preserving; lets key tables and label rules see the strings."""
    consts, counts = {}, {}
    for st in tree.body:
        tgs = []
        if isinstance(st, ast.Assign):
            tgs = [t for t in st.targets]
        elif isinstance(st, (ast.AugAssign, ast.AnnAssign)):
            tgs = [st.target]
        for t in tgs:
            for x in ast.walk(t):
                if isinstance(x, ast.Name):
                    counts[x.id] = counts.get(x.id, 0) + 1
        if isinstance(st, ast.Assign) and len(st.targets) == 1 and isinstance(st.targets[0], ast.Name) and isinstance(st.value, ast.Constant) \
                and isinstance(st.value.value, (str, int, float)) and not isinstance(st.value.value, bool):
            consts[st.targets[0].id] = st.value.value
    for n in ast.walk(tree):
        if isinstance(n, ast.Global):
            for nm in n.names:
                counts[nm] = counts.get(nm, 0) + 2
        if isinstance(n, (ast.FunctionDef, ast.AsyncFunctionDef, ast.ClassDef)) and n.name in consts:
            counts[n.name] = counts.get(n.name, 0) + 2
    consts = {k: v for k, v in consts.items() if counts.get(k) == 1 and k != '__all__' and not (k.startswith('__') and k.endswith('__'))}
    if not consts:
        return tree

    def local_names(fn):
        out = {a.arg for a in fn.args.posonlyargs + fn.args.args + fn.args.kwonlyargs}
        if fn.args.vararg:
            out.add(fn.args.vararg.arg)
        if fn.args.kwarg:
            out.add(fn.args.kwarg.arg)
        for x in ast.walk(fn):
            if isinstance(x, ast.Name) and isinstance(x.ctx, (ast.Store, ast.Del)):
                out.add(x.id)
        return out

    class Inline(ast.NodeTransformer):
        def __init__(self):
            self.shadow = [set()]
            self.depth = 0

        def visit_FunctionDef(self, node):
            self.shadow.append(self.shadow[-1] | local_names(node))
            self.depth += 1
            self.generic_visit(node)
            self.depth -= 1
            self.shadow.pop()
            return node

        visit_AsyncFunctionDef = visit_FunctionDef

        def visit_Lambda(self, node):
            self.shadow.append(self.shadow[-1] | {a.arg for a in node.args.args})
            self.generic_visit(node)
            self.shadow.pop()
            return node

        def visit_ClassDef(self, node):
            own = {t.id for st in node.body if isinstance(st, ast.Assign) for t in st.targets if isinstance(t, ast.Name)}
            self.shadow.append(self.shadow[-1] | own)
            self.depth += 1
            self.generic_visit(node)
            self.depth -= 1
            self.shadow.pop()
            return node

        def visit_Name(self, node):
            if self.depth and isinstance(node.ctx, ast.Load) and node.id in consts and node.id not in self.shadow[-1]:
                return ast.copy_location(ast.Constant(value=consts[node.id]), node)
            return node
    tree = Inline().visit(tree)
    ast.fix_missing_locations(tree)
    return tree


def fold_dynamic_names(tree):
    """Normalisation of reflective idioms with constant names (behaviour-preserving, after loop unrolling):
    f'..{CONST}..' -> constant; getattr(o, 'a') -> o.a; setattr(o, 'a', v) -> o.a = v; vars(o) -> o.__dict__;
    dict(a=x, b=y) -> {'a': x, 'b': y}."""
    class Fold(ast.NodeTransformer):
        def visit_JoinedStr(self, node):
            self.generic_visit(node)
            parts = []
            for v in node.values:
                if isinstance(v, ast.Constant) and isinstance(v.value, str):
                    parts.append(v.value)
                elif isinstance(v, ast.FormattedValue) and v.conversion == -1 and v.format_spec is None \
                        and isinstance(v.value, ast.Constant) and isinstance(v.value.value, (str, int)):
                    parts.append(str(v.value.value))
                else:
                    return node
            return ast.copy_location(ast.Constant(value=''.join(parts)), node)

        def visit_BinOp(self, node):
            self.generic_visit(node)
            if isinstance(node.op, ast.Add) and isinstance(node.left, ast.Constant) and isinstance(node.right, ast.Constant) \
                    and isinstance(node.left.value, str) and isinstance(node.right.value, str):
                return ast.copy_location(ast.Constant(value=node.left.value + node.right.value), node)
            if isinstance(node.op, ast.Mod) and isinstance(node.left, ast.Constant) and isinstance(node.left.value, str) \
                    and isinstance(node.right, ast.Constant) and isinstance(node.right.value, (str, int)) and node.left.value.count('%') == 1:
                try:
                    return ast.copy_location(ast.Constant(value=node.left.value % node.right.value), node)
                except (TypeError, ValueError):
                    return node
            return node

        def visit_Call(self, node):
            self.generic_visit(node)
            f = node.func
            if isinstance(f, ast.Attribute) and f.attr == 'format' and isinstance(f.value, ast.Constant) and isinstance(f.value.value, str) \
                    and not node.keywords and node.args and all(isinstance(a, ast.Constant) and isinstance(a.value, (str, int)) for a in node.args):
                try:
                    return ast.copy_location(ast.Constant(value=f.value.value.format(*[a.value for a in node.args])), node)
                except (IndexError, KeyError, ValueError):
                    return node
            if isinstance(f, ast.Name) and not node.keywords:
                a = node.args
                if f.id == 'getattr' and len(a) == 2 and isinstance(a[1], ast.Constant) and isinstance(a[1].value, str) and a[1].value.isidentifier():
                    return ast.copy_location(ast.Attribute(value=a[0], attr=a[1].value, ctx=ast.Load()), node)
                if f.id == 'vars' and len(a) == 1:
                    return ast.copy_location(ast.Attribute(value=a[0], attr='__dict__', ctx=ast.Load()), node)
            if isinstance(f, ast.Name) and f.id == 'dict' and not node.args and node.keywords and all(k.arg for k in node.keywords):
                return ast.copy_location(ast.Dict(keys=[ast.Constant(value=k.arg) for k in node.keywords], values=[k.value for k in node.keywords]), node)
            return node

        def visit_If(self, node):
            self.generic_visit(node)
            # `if K in D: del D[K]`  ->  D.pop(K, None)
            t = node.test
            if not node.orelse and len(node.body) == 1 and isinstance(node.body[0], ast.Delete) and len(node.body[0].targets) == 1 \
                    and isinstance(t, ast.Compare) and len(t.ops) == 1 and isinstance(t.ops[0], ast.In):
                tgt = node.body[0].targets[0]
                if isinstance(tgt, ast.Subscript) and ast.dump(tgt.value) == ast.dump(t.comparators[0]) and ast.dump(tgt.slice) == ast.dump(t.left):
                    call = ast.Call(func=ast.Attribute(value=t.comparators[0], attr='pop', ctx=ast.Load()), args=[t.left, ast.Constant(value=None)], keywords=[])
                    return ast.copy_location(ast.Expr(value=call), node)
            return node

        def visit_Expr(self, node):
            self.generic_visit(node)
            c = node.value
            if isinstance(c, ast.Call) and isinstance(c.func, ast.Name) and c.func.id == 'setattr' and len(c.args) == 3 and not c.keywords \
                    and isinstance(c.args[1], ast.Constant) and isinstance(c.args[1].value, str) and c.args[1].value.isidentifier():
                tgt = ast.Attribute(value=c.args[0], attr=c.args[1].value, ctx=ast.Store())
                return ast.copy_location(ast.Assign(targets=[tgt], value=c.args[2]), node)
            return node

    tree = Fold().visit(tree)
    ast.fix_missing_locations(tree)
    return tree


def _dotted_load(e):
    """A Name or a chain of attribute loads on a Name that looks like a module/class constant (np.floating, cls.KIND)."""
    if isinstance(e, ast.Name):
        return True
    return isinstance(e, ast.Attribute) and isinstance(e.value, ast.Name) and e.value.id not in ('self',)


def unroll_literal_loops(tree):
    """Normalisation: `for name in ('a', 'b'): body` (a literal tuple/list of constants, possibly through a
    single-assignment local or a module/class-level constant table, no break/continue/else) becomes the body repeated
    with the constant substituted; `for a, b in (('x', 'y'), ...)` likewise.
    Behaviour-preserving; lets attribute-level rules see `self.__dict__.pop(name)` / `setattr(obj, key, ...)`."""
    import copy
    tables = _constant_tables(tree)
    getters, opmods = set(), set()
    for n_ in getattr(tree, 'body', []):
        if isinstance(n_, ast.ImportFrom) and n_.module == 'operator':
            getters |= {a.asname or a.name for a in n_.names if a.name == 'itemgetter'}
        elif isinstance(n_, ast.Import):
            opmods |= {a.asname or a.name for a in n_.names if a.name == 'operator'}

    class Subst(ast.NodeTransformer):
        def __init__(self, name, const):
            self.name, self.const = name, const

        def visit_Name(self, n):
            if n.id == self.name and isinstance(n.ctx, ast.Load):
                if isinstance(self.const, tuple) and self.const[0] == 'name':
                    return ast.copy_location(ast.parse(self.const[1], mode='eval').body, n)
                if isinstance(self.const, tuple):
                    return ast.copy_location(ast.Tuple(elts=[ast.Constant(value=c_) for c_ in self.const], ctx=ast.Load()), n)
                return ast.copy_location(ast.Constant(value=self.const), n)
            return n

        def visit_Subscript(self, n):
            self.generic_visit(n)
            # ('a', 'b')[0] after the substitution of a row of a constant table
            if isinstance(n.value, ast.Tuple) and isinstance(n.slice, ast.Constant) and isinstance(n.slice.value, int) and not isinstance(n.slice.value, bool) \
                    and all(isinstance(e, ast.Constant) for e in n.value.elts) and -len(n.value.elts) <= n.slice.value < len(n.value.elts) and isinstance(n.ctx, ast.Load):
                return ast.copy_location(n.value.elts[n.slice.value], n)
            return n

    def literal_of(fnnode, it, cls=None):
        if isinstance(it, (ast.Tuple, ast.List)) and it.elts and len(it.elts) <= 8 and all(
                isinstance(e, ast.Constant) and isinstance(e.value, (str, int)) for e in it.elts):
            return [e.value for e in it.elts]
        if isinstance(it, (ast.Tuple, ast.List)) and it.elts and len(it.elts) <= 8 and all(
                isinstance(e, (ast.Tuple, ast.List)) and e.elts and all(isinstance(x, ast.Constant) and isinstance(x.value, (str, int)) for x in e.elts)
                for e in it.elts):
            return [tuple(x.value for x in e.elts) for e in it.elts]
        if isinstance(it, ast.Call) and isinstance(it.func, ast.Name) and it.func.id == 'range' and not it.keywords and 1 <= len(it.args) <= 2 \
                and all(isinstance(a, ast.Constant) and isinstance(a.value, int) and not isinstance(a.value, bool) for a in it.args):
            r = range(*[a.value for a in it.args])
            return list(r) if 0 < len(r) <= 8 else None
        if isinstance(it, ast.Name) and it.id in tables and (fnnode is None or not any(
                isinstance(n, ast.Name) and n.id == it.id and isinstance(n.ctx, ast.Store) for n in ast.walk(fnnode))):
            return list(tables[it.id])
        if isinstance(it, ast.Attribute) and isinstance(it.value, ast.Name) and it.value.id in ('self', 'cls') and cls is not None \
                and cls + '.' + it.attr in tables:
            return list(tables[cls + '.' + it.attr])
        if isinstance(it, (ast.Tuple, ast.List)) and it.elts and len(it.elts) <= 8 and all(isinstance(e, ast.Name) for e in it.elts):
            return [('name', e.id) for e in it.elts]
        if isinstance(it, (ast.Tuple, ast.List)) and it.elts and len(it.elts) <= 4 and all(
                isinstance(e, ast.Name) or (isinstance(e, ast.Constant) and isinstance(e.value, (int, float)) and not isinstance(e.value, bool)) for e in it.elts):
            return [('name', e.id) if isinstance(e, ast.Name) else e.value for e in it.elts]       # (U, V, 1)
        if isinstance(it, (ast.Tuple, ast.List)) and it.elts and len(it.elts) <= 4 and all(_dotted_load(e) for e in it.elts):
            return [('name', ast.unparse(e)) for e in it.elts]
        if isinstance(it, ast.Name) and fnnode is not None:
            defs = [n for n in ast.walk(fnnode) if isinstance(n, ast.Assign) and any(isinstance(t, ast.Name) and t.id == it.id for t in n.targets)]
            others = [n for n in ast.walk(fnnode) if isinstance(n, (ast.AugAssign, ast.For)) and isinstance(getattr(n, 'target', None), ast.Name)
                      and n.target.id == it.id]
            muts = [n for n in ast.walk(fnnode) if isinstance(n, ast.Call) and isinstance(n.func, ast.Attribute) and isinstance(n.func.value, ast.Name)
                    and n.func.value.id == it.id]
            if len(defs) == 1 and not others and not muts:
                return literal_of(None, defs[0].value)
        return None

    class SubstMany(ast.NodeTransformer):
        def __init__(self, mapping):
            self.mapping = mapping

        def visit_Name(self, n):
            if n.id in self.mapping and isinstance(n.ctx, ast.Load):
                return ast.copy_location(ast.Constant(value=self.mapping[n.id]), n)
            return n

    class Unroll(ast.NodeTransformer):
        def __init__(self):
            self.fn = None
            self.cls = None

        def visit_ClassDef(self, node):
            old, self.cls = self.cls, node.name
            self.generic_visit(node)
            self.cls = old
            return node

        def visit_FunctionDef(self, node):
            old, self.fn = self.fn, node
            self.generic_visit(node)
            self.fn = old
            return node

        visit_AsyncFunctionDef = visit_FunctionDef

        def visit_ListComp(self, node):
            self.generic_visit(node)
            # [f(k) for k in ('a', 'b')] over a literal tuple of constants -> [f('a'), f('b')]
            if len(node.generators) == 1 and not node.generators[0].ifs and not node.generators[0].is_async \
                    and isinstance(node.generators[0].target, ast.Name):
                vals = literal_of(self.fn, node.generators[0].iter, self.cls)
                if vals and all(isinstance(v, (str, int, float)) or (isinstance(v, tuple) and len(v) == 2 and v[0] == 'name') for v in vals):
                    name = node.generators[0].target.id
                    elts = [Subst(name, v).visit(clone(node.elt)) for v in vals]
                    return ast.copy_location(ast.List(elts=elts, ctx=ast.Load()), node)
            return node

        def visit_DictComp(self, node):
            self.generic_visit(node)
            # {k: f(k) for k in ('a', 'b')} over a literal tuple of constants -> {'a': f('a'), 'b': f('b')}
            if len(node.generators) == 1 and not node.generators[0].ifs and not node.generators[0].is_async \
                    and isinstance(node.generators[0].target, ast.Name):
                vals = literal_of(self.fn, node.generators[0].iter, self.cls)
                if vals and all(isinstance(v, (str, int)) for v in vals) and len(set(vals)) == len(vals):
                    name = node.generators[0].target.id
                    keys = [Subst(name, v).visit(clone(node.key)) for v in vals]
                    values = [Subst(name, v).visit(clone(node.value)) for v in vals]
                    return ast.copy_location(ast.Dict(keys=keys, values=values), node)
            return node

        def visit_GeneratorExp(self, node):
            self.generic_visit(node)
            # (f(k) for k in ('a', 'b')) consumed by tuple unpacking / tuple() / dict.update: the same elements, in order
            par_ok = isinstance(getattr(node, '_unroll_ok', None), bool)
            if par_ok and len(node.generators) == 1 and not node.generators[0].ifs and not node.generators[0].is_async \
                    and isinstance(node.generators[0].target, ast.Name):
                vals = literal_of(self.fn, node.generators[0].iter, self.cls)
                if vals and all(isinstance(v, (str, int, float)) or (isinstance(v, tuple) and len(v) == 2 and v[0] == 'name') for v in vals):
                    name = node.generators[0].target.id
                    elts = [Subst(name, v).visit(clone(node.elt)) for v in vals]
                    return ast.copy_location(ast.List(elts=elts, ctx=ast.Load()), node)
            return node

        def visit_Call(self, node):
            # mark generator arguments whose consumer takes the elements in order exactly once
            if ((isinstance(node.func, ast.Name) and node.func.id in ('tuple', 'list', 'dict')) or
                    (isinstance(node.func, ast.Attribute) and node.func.attr in ('update', 'extend', 'column_stack'))) and len(node.args) == 1 \
                    and isinstance(node.args[0], ast.GeneratorExp):
                node.args[0]._unroll_ok = True
            for a in node.args:
                if isinstance(a, ast.Starred) and isinstance(a.value, ast.GeneratorExp):
                    a.value._unroll_ok = True       # f(*(g(k) for k in ('a', 'b'))): the elements, in order, exactly once
            self.generic_visit(node)
            # f(*TABLE) with TABLE a module- / class-level constant tuple: the constants themselves
            for i_, a in enumerate(list(node.args)):
                if isinstance(a, ast.Starred) and not isinstance(a.value, (ast.List, ast.Tuple, ast.GeneratorExp)):
                    vals = literal_of(self.fn, a.value, self.cls) if isinstance(a.value, (ast.Name, ast.Attribute)) else None
                    if vals and all(isinstance(v, (str, int)) for v in vals):
                        a.value = ast.copy_location(ast.Tuple(elts=[ast.Constant(value=v) for v in vals], ctx=ast.Load()), a.value)
            if any(isinstance(a, ast.Starred) and isinstance(a.value, (ast.List, ast.Tuple)) for a in node.args):
                flat = []
                for a in node.args:
                    if isinstance(a, ast.Starred) and isinstance(a.value, (ast.List, ast.Tuple)) and not any(isinstance(e, ast.Starred) for e in a.value.elts):
                        flat.extend(a.value.elts)
                    else:
                        flat.append(a)
                node.args = flat
            # operator.itemgetter(k1, ..., kn)(d)  ->  (d[k1], ..., d[kn])   (d[k1] for a single key); d a plain name, evaluated once either way
            if isinstance(node.func, ast.Call) and len(node.args) == 1 and not node.keywords and isinstance(node.args[0], ast.Name) and not node.func.keywords \
                    and node.func.args and all(isinstance(k, ast.Constant) for k in node.func.args) and \
                    ((isinstance(node.func.func, ast.Name) and node.func.func.id in getters) or
                     (isinstance(node.func.func, ast.Attribute) and node.func.func.attr == 'itemgetter' and isinstance(node.func.func.value, ast.Name) and node.func.func.value.id in opmods)):
                items = [ast.Subscript(value=ast.Name(id=node.args[0].id, ctx=ast.Load()), slice=k, ctx=ast.Load()) for k in node.func.args]
                new = items[0] if len(items) == 1 else ast.Tuple(elts=items, ctx=ast.Load())
                for x in ast.walk(new):
                    ast.copy_location(x, node)
                return new
            # d.update(a=x, b=y)  ->  d.update({'a': x, 'b': y})
            if isinstance(node.func, ast.Attribute) and node.func.attr == 'update' and not node.args and node.keywords and all(k.arg for k in node.keywords):
                node.args = [ast.copy_location(ast.Dict(keys=[ast.Constant(value=k.arg) for k in node.keywords], values=[k.value for k in node.keywords]), node)]
                node.keywords = []
            # d.update([(k1, v1), (k2, v2)]) / dict([(k1, v1), ...])  ->  with a dict literal
            if ((isinstance(node.func, ast.Attribute) and node.func.attr == 'update') or (isinstance(node.func, ast.Name) and node.func.id == 'dict')) \
                    and len(node.args) == 1 and not node.keywords and isinstance(node.args[0], ast.List) and node.args[0].elts \
                    and all(isinstance(e, ast.Tuple) and len(e.elts) == 2 for e in node.args[0].elts):
                d = ast.copy_location(ast.Dict(keys=[e.elts[0] for e in node.args[0].elts], values=[e.elts[1] for e in node.args[0].elts]), node.args[0])
                if isinstance(node.func, ast.Name):
                    return d
                node.args[0] = d
            if isinstance(node.func, ast.Name) and node.func.id == 'tuple' and len(node.args) == 1 and isinstance(node.args[0], ast.List) and not node.keywords:
                return ast.copy_location(ast.Tuple(elts=node.args[0].elts, ctx=ast.Load()), node)
            return node

        def visit_Assign(self, node):
            if isinstance(node.value, ast.GeneratorExp) and len(node.targets) == 1 and isinstance(node.targets[0], (ast.Tuple, ast.List)):
                node.value._unroll_ok = True
            self.generic_visit(node)
            # a, b = [e1, e2]  ->  a = e1; b = e2   (when no element reads a target: not a swap)
            if len(node.targets) == 1 and isinstance(node.targets[0], (ast.Tuple, ast.List)) and isinstance(node.value, (ast.Tuple, ast.List)) \
                    and len(node.targets[0].elts) == len(node.value.elts) and all(isinstance(t, ast.Name) for t in node.targets[0].elts) \
                    and not any(isinstance(v, ast.Starred) for v in node.value.elts):
                order = [t.id for t in node.targets[0].elts]
                names = set(order)
                # sequential assignment is the same unless a later element reads a name an earlier pair has already re-bound
                clash = any(isinstance(x, ast.Name) and x.id in order[:j] for j, v in enumerate(node.value.elts) for x in ast.walk(v))
                if len(names) == len(order) and not clash:
                    return [ast.copy_location(ast.Assign(targets=[ast.Name(id=t.id, ctx=ast.Store())], value=v, type_comment=None), node)
                            for t, v in zip(node.targets[0].elts, node.value.elts)]
            return node

        def visit_For(self, node):
            self.generic_visit(node)
            if any(isinstance(x, (ast.Break, ast.Continue)) for b in node.body for x in ast.walk(b)):
                return node
            if not node.orelse and isinstance(node.target, ast.Tuple) and all(isinstance(e, ast.Name) for e in node.target.elts):
                names = [e.id for e in node.target.elts]
                vals = literal_of(self.fn, node.iter, self.cls)
                stored = any(isinstance(x, ast.Name) and x.id in names and isinstance(x.ctx, ast.Store) for b in node.body for x in ast.walk(b))
                if vals and not stored and all(isinstance(v, tuple) and v[:1] != ('name',) and len(v) == len(names) for v in vals):
                    out = []
                    for v in vals:
                        for b in node.body:
                            out.append(SubstMany(dict(zip(names, v))).visit(clone(b)))
                    return out
                return node
            if node.orelse or not isinstance(node.target, ast.Name):
                return node
            if any(isinstance(x, ast.Name) and x.id == node.target.id and isinstance(x.ctx, ast.Store) for b in node.body for x in ast.walk(b)):
                return node
            vals = literal_of(self.fn, node.iter, self.cls)
            if vals is None:
                return node
            if any(isinstance(v, tuple) and v[:1] != ('name',) for v in vals):
                # rows of a constant table bound to one name: only when every use of the name is a constant subscript
                uses = [x for b in node.body for x in ast.walk(b) if isinstance(x, ast.Name) and x.id == node.target.id]
                subs = [x for b in node.body for x in ast.walk(b) if isinstance(x, ast.Subscript) and isinstance(x.value, ast.Name) and x.value.id == node.target.id
                        and isinstance(x.slice, ast.Constant) and isinstance(x.slice.value, int)]
                if not all(isinstance(v, tuple) and v[:1] != ('name',) for v in vals) or len(uses) != len(subs):
                    return node
                out = []
                for v in vals:
                    for b in node.body:
                        out.append(Subst(node.target.id, v).visit(clone(b)))
                return out
            names = {v[1].split('.')[0] for v in vals if isinstance(v, tuple)}
            if names and any(isinstance(x, ast.Name) and x.id in names and isinstance(x.ctx, ast.Store) for b in node.body for x in ast.walk(b)):
                return node
            out = []
            for v in vals:
                for b in node.body:
                    out.append(Subst(node.target.id, v).visit(clone(b)))
            return out

    tree = Unroll().visit(tree)
    ast.fix_missing_locations(tree)
    return tree


class ClassInfo:
    def __init__(self, prog, module, node):
        self.prog = prog
        self.module = module
        self.node = node
        self.name = node.name
        self.qualname = f'{module.name}.{node.name}'
        self.base_names = []  # dotted
        self.methods = MethodTable(self.qualname)
        self.attrs = {}  # class-level attribute -> value expr

    def need(self, name):
        """lookup() of a private hook of the class; a missing one is a PrivateAnchorMissing (rule group -> UNDECIDED)."""
        m = self.lookup(name)
        if m is None:
            raise PrivateAnchorMissing(f'{self.qualname}.{name}')
        return m

    def bases(self):
        return [self.prog.classes[b] for b in self.base_names if b in self.prog.classes]

    def mro(self):
        # C3 over project classes (single inheritance in practice, but do it right)
        def merge(seqs):
            res = []
            seqs = [list(s) for s in seqs if s]
            while seqs:
                for s in seqs:
                    head = s[0]
                    if not any(head in t[1:] for t in seqs):
                        break
                else:  # pragma: no cover
                    raise AnalysisError(f'inconsistent MRO for {self.qualname}')
                res.append(head)
                seqs = [[x for x in t if x is not head] for t in seqs]
                seqs = [t for t in seqs if t]
            return res

        bs = self.bases()
        return [self] + merge([b.mro() for b in bs] + [bs])

    def lookup(self, name):
        for c in self.mro():
            if name in c.methods:
                return c.methods[name]
        return None

    def lookup_attr(self, name):
        """class-level attribute by MRO -> (ClassInfo, expr) or None"""
        for c in self.mro():
            if name in c.attrs:
                return c, c.attrs[name]
        return None

    def is_subclass_of(self, other):
        return other in self.mro()

    def subclasses(self, strict=True):
        out = []
        for c in self.prog.classes.values():
            if self in c.mro() and (c is not self or not strict):
                out.append(c)
        return out

    def is_abstract(self):
        """ABC among the direct bases (the repo's own convention, base.py:80)."""
        return any(b.split('.')[-1] == 'ABC' for b in self.base_names)

    def __repr__(self):
        return f'<Class {self.qualname}>'


class FuncInfo:
    def __init__(self, prog, module, node, cls=None, outer=None):
        self.prog = prog
        self.module = module
        self.node = node
        self.cls = cls
        self.outer = outer
        self.name = node.name
        if cls is not None:
            self.qualname = f'{cls.qualname}.{node.name}'
        elif outer is not None:
            self.qualname = f'{outer.qualname}.<locals>.{node.name}'
        else:
            self.qualname = f'{module.name}.{node.name}'
        self.decorators = []  # dotted names
        args = node.args
        self.params = [a.arg for a in args.posonlyargs + args.args]
        self.kwonly = [a.arg for a in args.kwonlyargs]
        self.vararg = args.vararg.arg if args.vararg else None
        self.kwarg = args.kwarg.arg if args.kwarg else None
        n_def = len(args.defaults)
        self.defaults = {}
        pos = args.posonlyargs + args.args
        for a, d in zip(pos[len(pos) - n_def:], args.defaults):
            self.defaults[a.arg] = d
        for a, d in zip(args.kwonlyargs, args.kw_defaults):
            if d is not None:
                self.defaults[a.arg] = d

    @property
    def is_method(self):
        return self.cls is not None

    @property
    def kind(self):
        for d in self.decorators:
            if d in ('classmethod', 'staticmethod'):
                return d
        return 'method' if self.cls is not None else 'function'

    @property
    def self_name(self):
        if self.cls is not None and self.kind in ('method', 'classmethod') and self.params:
            return self.params[0]
        return None

    @property
    def data_params(self):
        ps = list(self.params)
        if self.self_name:
            ps = ps[1:]
        return ps + self.kwonly

    @property
    def short(self):
        q = self.qualname
        return q[len(PKG) + 1:] if q.startswith(PKG + '.') else q

    def where(self, node=None):
        n = node if node is not None else self.node
        return f'{self.module.relpath}:{getattr(n, "lineno", "?")}'

    def docstring(self):
        return ast.get_docstring(self.node) or ''

    def body(self):
        b = self.node.body
        if b and isinstance(b[0], ast.Expr) and isinstance(getattr(b[0], 'value', None), ast.Constant) \
                and isinstance(b[0].value.value, str):
            return b[1:]
        return b

    def __repr__(self):
        return f'<Func {self.qualname}>'


class Program:
    def __init__(self, root=None, overlay=None):
        self.root = root or REPO
        self.overlay = dict(overlay or {})
        self.modules = {}
        self.classes = {}
        self.functions = {}
        self._load()
        self._index()

    # ------------------------------------------------------------------ loading
    def _load(self):
        pkgdir = os.path.join(self.root, PKG)
        if not os.path.isdir(pkgdir):
            raise AnalysisError(f'{pkgdir} does not exist')
        seen = set()
        for dirpath, dirnames, filenames in os.walk(pkgdir):
            dirnames[:] = sorted(d for d in dirnames if d != '__pycache__')
            for fn in sorted(filenames):
                if not fn.endswith('.py'):
                    continue
                path = os.path.join(dirpath, fn)
                rel = os.path.relpath(path, self.root)
                seen.add(rel)
                if rel in self.overlay:
                    src = self.overlay[rel]
                    if src is None:
                        continue
                else:
                    with open(path, encoding='utf-8') as fh:
                        src = fh.read()
                self._add_module(rel, src)
        for rel, src in self.overlay.items():
            if rel not in seen and src is not None and rel.startswith(PKG + '/'):
                self._add_module(rel, src)

    def _add_module(self, rel, src):
        parts = rel[:-3].split(os.sep)
        is_pkg = parts[-1] == '__init__'
        if is_pkg:
            parts = parts[:-1]
        name = '.'.join(parts)
        self.modules[name] = Module(name, rel, src, is_pkg)

    def digest(self):
        h = hashlib.sha256()
        for name in sorted(self.modules):
            h.update(name.encode())
            h.update(self.modules[name].source.encode())
        return h.hexdigest()[:16]

    # ----------------------------------------------------------------- indexing
    def _index(self):
        for mod in self.modules.values():
            self._index_imports(mod)
        for mod in self.modules.values():
            self._index_defs(mod)
        for cls in self.classes.values():
            cls.base_names = [self.resolve(cls.module, b) or ast.unparse(b) for b in cls.node.bases]
        for fn in list(self.functions.values()):
            fn.decorators = [self._decorator_name(fn.module, d) for d in fn.node.decorator_list]
        self._inline_accessors()
        self._inline_expression_helpers()

    def _inline_expression_helpers(self):
        """Normalisation over the whole program: a private module-level function `def _h(p, q): return <expr>` (no decorator, defaults or
        star parameters, a single return after the docstring) called with plain arguments (names, constants, attribute chains) is replaced by
        `<expr>` with the arguments substituted; plain arguments have no effects, so evaluating them where the parameters stood is the same."""
        import copy
        for fn in list(self.functions.values()):
            if fn.cls is not None or fn.outer is not None or not fn.name.startswith('_') or fn.name.startswith('__') or fn.node.decorator_list \
                    or fn.vararg or fn.kwarg or fn.kwonly or fn.defaults:
                continue
            body = fn.node.body
            if body and isinstance(body[0], ast.Expr) and isinstance(body[0].value, ast.Constant) and isinstance(body[0].value.value, str):
                body = body[1:]
            if len(body) != 1 or not isinstance(body[0], ast.Return) or body[0].value is None:
                continue
            expr = body[0].value
            if any(isinstance(x, (ast.Yield, ast.YieldFrom, ast.Await, ast.Lambda, ast.NamedExpr)) for x in ast.walk(expr)):
                continue
            if any(isinstance(x, ast.Call) and isinstance(x.func, ast.Name) and x.func.id == fn.name for x in ast.walk(expr)):
                continue
            bound_inside = {x.id for x in ast.walk(expr) if isinstance(x, ast.Name) and isinstance(x.ctx, ast.Store)}
            free = {x.id for x in ast.walk(expr) if isinstance(x, ast.Name) and isinstance(x.ctx, ast.Load)} - set(fn.params) - bound_inside
            if bound_inside & set(fn.params):
                continue

            def plain(a):
                while isinstance(a, ast.Attribute):
                    a = a.value
                return isinstance(a, (ast.Name, ast.Constant))
            for caller in list(self.functions.values()):
                if caller is fn:
                    continue
                # the free names of the expression (np, EPSILON, ...) must mean the same in the caller's module
                if caller.module is not fn.module and any(self.resolve(caller.module, ast.Name(id=nm, ctx=ast.Load())) != self.resolve(fn.module, ast.Name(id=nm, ctx=ast.Load()))
                                                          for nm in free):
                    continue
                local_names = {x.id for x in ast.walk(caller.node) if isinstance(x, ast.Name) and isinstance(x.ctx, ast.Store)} | set(caller.params)
                if free & local_names:
                    continue
                prog = self

                class Sub(ast.NodeTransformer):
                    hit = False

                    def visit_Call(self2, n):
                        self2.generic_visit(n)
                        if isinstance(n.func, (ast.Name, ast.Attribute)) and prog.resolve(caller.module, n.func) == fn.qualname and not n.keywords \
                                and len(n.args) == len(fn.params) and all(plain(a) for a in n.args):
                            names_in_args = {x.id for a in n.args for x in ast.walk(a) if isinstance(x, ast.Name)}
                            if names_in_args & bound_inside:
                                return n
                            mapping = dict(zip(fn.params, n.args))

                            class P(ast.NodeTransformer):
                                def visit_Name(self3, x):
                                    if x.id in mapping and isinstance(x.ctx, ast.Load):
                                        return clone(mapping[x.id])
                                    return x
                            e = P().visit(clone(expr))
                            for x in ast.walk(e):
                                ast.copy_location(x, n)
                            Sub.hit = True
                            return e
                        return n
                Sub().visit(caller.node)
                if Sub.hit:
                    ast.fix_missing_locations(caller.node)
                    for parent in ast.walk(caller.node):
                        for child in ast.iter_child_nodes(parent):
                            child._parent = parent

    def _inline_accessors(self):
        """Normalisation over the whole program: a private method `def _m(self): return <expr>` (no other parameter, no decorator, a single
        return after the docstring, not overridden in any subclass and not itself an override) is an accessor; every `self._m()` in the
        methods of its class and subclasses is replaced by `<expr>` with the caller's own `self`.  The method itself stays defined."""
        import copy
        for cls in list(self.classes.values()):
            for name, m in list(cls.methods.items()):
                if not name.startswith('_') or name.startswith('__') or m.node.decorator_list or len(m.params) != 1 or m.kwonly or m.vararg or m.kwarg:
                    continue
                body = m.node.body
                if body and isinstance(body[0], ast.Expr) and isinstance(body[0].value, ast.Constant) and isinstance(body[0].value.value, str):
                    body = body[1:]
                if len(body) != 1 or not isinstance(body[0], ast.Return) or body[0].value is None:
                    continue
                expr = body[0].value
                if any(isinstance(x, (ast.Yield, ast.YieldFrom, ast.Await, ast.Lambda, ast.NamedExpr)) for x in ast.walk(expr)):
                    continue
                try:
                    subs = cls.subclasses(strict=True)
                    bases = [c for c in cls.mro() if c is not cls]
                except AnalysisError:
                    continue
                if any(name in c.methods for c in subs) or any(name in c.methods for c in bases):
                    continue
                if any(isinstance(x, ast.Call) and isinstance(x.func, ast.Attribute) and x.func.attr == name and isinstance(x.func.value, ast.Name)
                       and x.func.value.id == m.params[0] for x in ast.walk(expr)):
                    continue        # recursive
                selfname = m.params[0]
                for c in [cls] + subs:
                    for caller in c.methods.values():
                        if caller is m or not caller.params or caller.kind != 'method':
                            continue
                        cs = caller.params[0]
                        rebound = any(isinstance(x, ast.Name) and x.id == cs and isinstance(x.ctx, ast.Store) for x in ast.walk(caller.node))
                        if rebound:
                            continue

                        class Sub(ast.NodeTransformer):
                            hit = False

                            def visit_Call(self2, n):
                                self2.generic_visit(n)
                                if isinstance(n.func, ast.Attribute) and n.func.attr == name and isinstance(n.func.value, ast.Name) and n.func.value.id == cs \
                                        and not n.args and not n.keywords:
                                    e = clone(expr)
                                    for x in ast.walk(e):
                                        if isinstance(x, ast.Name) and x.id == selfname:
                                            x.id = cs
                                        ast.copy_location(x, n)
                                    Sub.hit = True
                                    return e
                                return n
                        Sub().visit(caller.node)
                        if Sub.hit:
                            ast.fix_missing_locations(caller.node)
                            for parent in ast.walk(caller.node):
                                for child in ast.iter_child_nodes(parent):
                                    child._parent = parent

    def _decorator_name(self, mod, d):
        if isinstance(d, ast.Call):
            d = d.func
        return self.resolve(mod, d) or ast.unparse(d)

    def _index_imports(self, mod):
        def handle(node):
            if isinstance(node, ast.Import):
                for a in node.names:
                    if a.asname:
                        mod.imports[a.asname] = a.name
                    else:
                        mod.imports[a.name.split('.')[0]] = a.name.split('.')[0]
            elif isinstance(node, ast.ImportFrom):
                base = node.module or ''
                if node.level:
                    pkgparts = mod.name.split('.')
                    if not mod.is_pkg:
                        pkgparts = pkgparts[:-1]
                    pkgparts = pkgparts[:len(pkgparts) - (node.level - 1)]
                    base = '.'.join(pkgparts + ([node.module] if node.module else []))
                for a in node.names:
                    mod.imports[a.asname or a.name] = f'{base}.{a.name}'

        for node in ast.walk(mod.tree):
            # function-level imports (Bivariate.select_copula) count as module imports too
            handle(node)

    def _index_defs(self, mod):
        for node in mod.tree.body:
            if isinstance(node, (ast.FunctionDef, ast.AsyncFunctionDef)):
                fn = FuncInfo(self, mod, node)
                self.functions[fn.qualname] = fn
                mod.toplevel[node.name] = node
                self._index_nested(fn)
            elif isinstance(node, ast.ClassDef):
                cls = ClassInfo(self, mod, node)
                self.classes[cls.qualname] = cls
                mod.toplevel[node.name] = node
                for item in node.body:
                    if isinstance(item, (ast.FunctionDef, ast.AsyncFunctionDef)):
                        fn = FuncInfo(self, mod, item, cls=cls)
                        cls.methods[item.name] = fn
                        self.functions[fn.qualname] = fn
                        self._index_nested(fn)
                    elif isinstance(item, ast.Assign):
                        for t in item.targets:
                            if isinstance(t, ast.Name):
                                cls.attrs[t.id] = item.value
                    elif isinstance(item, ast.AnnAssign) and isinstance(item.target, ast.Name) \
                            and item.value is not None:
                        cls.attrs[item.target.id] = item.value
            elif isinstance(node, ast.Assign):
                for t in node.targets:
                    if isinstance(t, ast.Name):
                        mod.toplevel[t.id] = node.value
                        if t.id == '__all__':
                            try:
                                mod.all = list(ast.literal_eval(node.value))
                            except Exception:
                                mod.all = None

    def _index_nested(self, outer):
        for node in ast.walk(outer.node):
            if node is outer.node:
                continue
            if isinstance(node, (ast.FunctionDef, ast.AsyncFunctionDef)):
                # direct nesting only (one level is all the repo uses)
                p = node._parent
                while not isinstance(p, (ast.FunctionDef, ast.AsyncFunctionDef, ast.ClassDef, ast.Module)):
                    p = p._parent
                if p is outer.node:
                    fn = FuncInfo(self, outer.module, node, outer=outer)
                    self.functions[fn.qualname] = fn
                    self._index_nested(fn)

    # --------------------------------------------------------------- resolution
    def canonical(self, dotted, _depth=0):
        """Follow re-exports: copulas.univariate.GaussianUnivariate -> ...gaussian.GaussianUnivariate."""
        if dotted is None or _depth > 8:
            return dotted
        if dotted in self.classes or dotted in self.functions or dotted in self.modules:
            return dotted
        parts = dotted.split('.')
        for i in range(len(parts) - 1, 0, -1):
            modname = '.'.join(parts[:i])
            if modname in self.modules:
                mod = self.modules[modname]
                head, rest = parts[i], parts[i + 1:]
                if head in mod.toplevel:
                    return dotted
                if head in mod.imports:
                    tgt = '.'.join([mod.imports[head]] + rest)
                    if tgt != dotted:
                        return self.canonical(tgt, _depth + 1)
                return dotted
        return dotted

    def resolve(self, mod, expr):
        """Dotted name an expression denotes statically, or None."""
        if isinstance(expr, ast.Name):
            if expr.id in mod.imports:
                return self.canonical(mod.imports[expr.id])
            if expr.id in mod.toplevel:
                return f'{mod.name}.{expr.id}'
            if expr.id in BUILTINS:
                return expr.id
            return None
        if isinstance(expr, ast.Attribute):
            base = self.resolve(mod, expr.value)
            if base is None:
                return None
            return self.canonical(f'{base}.{expr.attr}')
        return None

    def constant(self, dotted):
        """Value expression of a module-level constant such as copulas.utils.EPSILON."""
        if dotted is None:
            return None
        modname, _, name = dotted.rpartition('.')
        mod = self.modules.get(modname)
        if mod and name in mod.toplevel and isinstance(mod.toplevel[name], ast.expr):
            return mod.toplevel[name]
        return None

    # ------------------------------------------------------------------ anchors
    def func(self, qualname):
        fn = self.functions.get(qualname)
        if fn is None:
            raise AnalysisError(f'anchor vanished: function {qualname}')
        return fn

    def cls(self, qualname):
        c = self.classes.get(qualname)
        if c is None:
            raise AnalysisError(f'anchor vanished: class {qualname}')
        return c

    def method(self, clsq, name, inherited=True):
        c = self.cls(clsq)
        fn = c.lookup(name) if inherited else c.methods.get(name)
        if fn is None:
            if name.startswith('_') and not name.startswith('__'):
                raise PrivateAnchorMissing(f'{clsq}.{name}')
            raise AnalysisError(f'anchor vanished: method {clsq}.{name}')
        return fn

    def stats(self):
        calls = 0
        for fn in self.functions.values():
            for n in ast.walk(fn.node):
                if isinstance(n, ast.Call):
                    calls += 1
        return {
            'modules': len(self.modules),
            'classes': len(self.classes),
            'functions': len(self.functions),
            'call_sites': calls,
            'digest': self.digest(),
        }

    def public_callables(self):
        out = []
        for fn in self.functions.values():
            if fn.outer is not None:
                continue
            if fn.name.startswith('_') and not (fn.name.startswith('__') and fn.name.endswith('__')):
                continue
            if fn.cls is not None and fn.cls.name.startswith('_'):
                continue
            out.append(fn)
        return sorted(out, key=lambda f: f.qualname)


BUILTINS = {
    'len', 'min', 'max', 'sum', 'abs', 'sorted', 'list', 'dict', 'set', 'tuple', 'range', 'zip',
    'enumerate', 'isinstance', 'getattr', 'setattr', 'hasattr', 'int', 'float', 'str', 'bool',
    'super', 'open', 'type', 'object', 'any', 'all', 'map', 'filter', 'print', 'reversed', 'iter',
    'next', 'round', 'id', 'callable', 'classmethod', 'staticmethod', 'property', 'Exception',
    'ValueError', 'TypeError', 'NotImplementedError', 'AttributeError', 'KeyError', 'IndexError',
    'RuntimeWarning', 'DeprecationWarning', 'RuntimeError', 'AssertionError', 'frozenset', 'divmod',
    'pow', 'repr', 'hash', 'vars', 'dir', 'slice', 'bytes', 'complex', 'issubclass', 'BaseException',
}


# ---------------------------------------------------------------------- helpers
def parent(node):
    return getattr(node, '_parent', None)


def enclosing_stmt(node):
    n = node
    while n is not None and not isinstance(n, ast.stmt):
        n = parent(n)
    return n


def unparse(node):
    if node is None:
        return 'None'
    if isinstance(node, list):
        return '; '.join(unparse(n) for n in node)
    try:
        return ast.unparse(node)
    except Exception:  # pragma: no cover
        return repr(node)


def short(node, n=110):
    s = ' '.join(unparse(node).split())
    return s if len(s) <= n else s[:n - 3] + '...'


def is_self_attr(node, selfname='self', attr=None):
    return (isinstance(node, ast.Attribute) and isinstance(node.value, ast.Name)
            and node.value.id == selfname and (attr is None or node.attr == attr))


def walk_no_nested(node):
    """ast.walk that does not descend into nested function/class/lambda bodies."""
    todo = [node]
    first = True
    while todo:
        n = todo.pop()
        if not first and isinstance(n, (ast.FunctionDef, ast.AsyncFunctionDef, ast.ClassDef, ast.Lambda)):
            yield n
            continue
        first = False
        yield n
        todo.extend(reversed(list(ast.iter_child_nodes(n))))


def calls_in(node, nested=True):
    it = ast.walk(node) if nested else walk_no_nested(node)
    return [n for n in it if isinstance(n, ast.Call)]


def call_name(call):
    """Trailing name of the callee: f(...) -> f, a.b.c(...) -> c."""
    f = call.func
    if isinstance(f, ast.Name):
        return f.id
    if isinstance(f, ast.Attribute):
        return f.attr
    return None


def kwarg(call, name, pos=None):
    for k in call.keywords:
        if k.arg == name:
            return k.value
    if pos is not None and len(call.args) > pos and not any(isinstance(a, ast.Starred) for a in call.args[:pos + 1]):
        return call.args[pos]
    return None


def const_value(node, default=None):
    try:
        return ast.literal_eval(node)
    except Exception:
        return default
