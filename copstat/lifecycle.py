"""Analyses behind C19 (and C06-D3): fitted-check dominance, must/may writes of fit, np.empty coverage."""

import ast

from .cfg import CFG, forward, header_exprs
from .effects import AttrEffects
from .model import call_name, is_self_attr, short, walk_no_nested

QUERY_METHODS = ('pdf', 'probability_density', 'log_probability_density', 'cdf', 'cumulative_distribution', 'ppf',
                 'percent_point', 'partial_derivative', 'partial_derivative_scalar', 'generator', 'sample',
                 'get_likelihood')
CHECK_NAMES = ('check_fit',)


def model_classes(prog):
    """Classes that have both fit and check_fit in their MRO."""
    return sorted([c for c in prog.classes.values() if c.lookup('fit') is not None and c.lookup('check_fit') is not None],
                  key=lambda c: c.qualname)


def get_attr_effects(ctx):
    if 'attrfx' not in ctx.memo:
        ctx.memo['attrfx'] = AttrEffects(ctx)
    return ctx.memo['attrfx']


def config_attrs(ctx, cls):
    """Attributes assigned in __init__ (of the MRO) from a constructor parameter."""
    out = {}
    init = cls.lookup('__init__')
    if init is None or not init.self_name:
        return out
    params = set(init.params[1:]) | set(init.kwonly)
    for n in walk_no_nested(init.node):
        if isinstance(n, ast.Assign):
            names = {x.id for x in ast.walk(n.value) if isinstance(x, ast.Name)}
            for t in n.targets:
                if is_self_attr(t, init.self_name) and names & params:
                    out[t.attr] = n
    return out


def fitted_state(ctx, cls):
    """MAY-W of the fit closure of cls, minus config, minus the `fitted` flag."""
    key = ('fitted_state', cls.qualname)
    if key in ctx.memo:
        return ctx.memo[key]
    fx = get_attr_effects(ctx)
    fit = cls.lookup('fit')
    res = set()
    if fit is not None:
        _reads, writes = fx.transitive(fit, cls)
        res = set(writes) - set(config_attrs(ctx, cls)) - {'fitted'}
        # method names replaced at instance level are not state to be guarded
        res = {a for a in res if cls.lookup(a) is None}
    ctx.memo[key] = res
    return res


class GuardAnalysis:
    """Per (concrete class, method): safe = no read of fitted state before a check_fit();
    ensures = every normal exit has passed a check_fit()."""

    def __init__(self, ctx):
        self.ctx = ctx
        self.prog = ctx.prog
        self.fx = get_attr_effects(ctx)
        self.cfgs = {}
        self.safe = {}
        self.ensures = {}
        self.witness = {}

    def cfg(self, fn):
        if fn.qualname not in self.cfgs:
            self.cfgs[fn.qualname] = CFG(fn.node)
        return self.cfgs[fn.qualname]

    def solve(self, cls):
        F = fitted_state(self.ctx, cls)
        methods = {}
        for c in cls.mro():
            for name, m in c.methods.items():
                if name not in methods and m.kind == 'method':
                    methods[name] = m
        # instance-level alternatives are analysed too
        for k in list(methods):
            self.safe[(cls.qualname, k)] = True
            self.ensures[(cls.qualname, k)] = True
        changed = True
        rounds = 0
        while changed and rounds < 20:
            changed = False
            rounds += 1
            for name, m in methods.items():
                safe, ens, wit = self._analyse(cls, m, F)
                if name in CHECK_NAMES:
                    safe, ens, wit = True, True, None
                if safe != self.safe[(cls.qualname, name)] or ens != self.ensures[(cls.qualname, name)]:
                    changed = True
                self.safe[(cls.qualname, name)] = safe
                self.ensures[(cls.qualname, name)] = ens
                self.witness[(cls.qualname, name)] = wit
        return F

    def _events(self, cls, m, node, F):
        """Ordered events of one CFG node: ('check',), ('read', attr, astnode), ('call', name, astnode)."""
        sn = m.self_name
        evs = []
        for h in header_exprs(node):
            for n in walk_no_nested(h):
                if is_self_attr(n, sn) and isinstance(n.ctx, ast.Load):
                    par = getattr(n, '_parent', None)
                    if isinstance(par, ast.Call) and par.func is n:
                        end = (par.end_lineno, par.end_col_offset)
                        if n.attr in CHECK_NAMES:
                            evs.append((end, 'check', n.attr, par))
                        else:
                            evs.append((end, 'call', n.attr, par))
                    elif n.attr in F:
                        evs.append(((n.lineno, n.col_offset), 'read', n.attr, n))
        evs.sort(key=lambda e: e[0])
        return evs

    def decorator_checks(self, m):
        """True when a project decorator of m calls <self>.check_fit() before every call of the wrapped function."""
        for d in m.decorators:
            D = self.prog.functions.get(d)
            if D is None or not D.params:
                continue
            wrapped = D.params[0]
            for W in [n for n in ast.walk(D.node) if isinstance(n, ast.FunctionDef) and n is not D.node]:
                if not W.args.args:
                    continue
                p = W.args.args[0].arg
                calls = [c for c in walk_no_nested(W) if isinstance(c, ast.Call) and isinstance(c.func, ast.Name) and c.func.id == wrapped]
                checks = [c for c in walk_no_nested(W) if isinstance(c, ast.Call) and isinstance(c.func, ast.Attribute) and c.func.attr in CHECK_NAMES
                          and isinstance(c.func.value, ast.Name) and c.func.value.id == p]
                if not calls or not checks:
                    continue
                cfg = CFG(W)
                dom = cfg.dominators(exceptional=False)
                ok = True
                for c in calls:
                    nc = cfg.node_containing(c)
                    if nc is None or not any(cfg.node_containing(k) is not None and cfg.node_containing(k).id in dom.get(nc.id, ()) and cfg.node_containing(k).id != nc.id
                                             for k in checks):
                        ok = False
                if ok:
                    return True
        return False

    def _analyse(self, cls, m, F):
        if not m.self_name:
            return True, False, None
        if self.decorator_checks(m):
            return True, True, None
        cfg = self.cfg(m)
        witness = []
        overrides = self.ctx.cg.instance_overrides(cls)

        def transfer(node, checked):
            checked = bool(checked)
            for _pos, kind, name, astn in self._events(cls, m, node, F):
                if kind == 'check':
                    checked = True
                elif kind == 'read':
                    if not checked:
                        witness.append((astn, f'reads self.{name}'))
                elif kind == 'call':
                    tgt = cls.lookup(name)
                    if tgt is None or tgt.kind != 'method':
                        continue
                    names = [name]
                    ok_safe = self.safe.get((cls.qualname, name), True)
                    ok_ens = self.ensures.get((cls.qualname, name), True)
                    if not checked and not ok_safe:
                        witness.append((astn, f'calls self.{name}(), which reads fitted state unguarded'))
                    if ok_ens and ok_safe:
                        checked = True
            return checked

        states = forward(cfg, False, transfer, lambda a, b: bool(a) and bool(b), exceptional=True)
        # re-run to collect witnesses with final states (transfer is deterministic per in-state)
        witness.clear()
        for node in cfg.nodes:
            if node.id in states:
                transfer(node, states[node.id])
        ens = bool(states.get(cfg.exit.id, True)) if cfg.exit.id in states else True
        safe = not witness
        wit = witness[0] if witness else None
        return safe, ens, wit


# ------------------------------------------------------------------ must / may writes of fit
class MustWrite:
    def __init__(self, ctx):
        self.ctx = ctx
        self.fx = get_attr_effects(ctx)
        self.memo = {}
        self.busy = set()

    def must(self, cls, m):
        """Attributes of self definitely written on every normal exit of m (for concrete cls)."""
        key = (cls.qualname, m.qualname)
        if key in self.memo:
            return self.memo[key]
        if key in self.busy or not m.self_name:
            return frozenset()
        self.busy.add(key)
        cfg = CFG(m.node)
        sn = m.self_name

        def transfer(node, st):
            st = set(st) if st is not None else set()
            if node.kind == 'branch':
                test, pol = node.ast.test, node.pol
                while isinstance(test, ast.UnaryOp) and isinstance(test.op, ast.Not):
                    test, pol = test.operand, not pol
                if isinstance(test, ast.Name):
                    from .idioms import resolve
                    test = resolve(m.node, test)
                    while isinstance(test, ast.UnaryOp) and isinstance(test.op, ast.Not):
                        test, pol = test.operand, not pol
                if isinstance(test, ast.Call) and is_self_attr(test.func, sn):
                    tgt = cls.lookup(test.func.attr)
                    if tgt is not None and tgt.kind == 'method':
                        st |= self.must_when(cls, tgt, pol)
                return frozenset(st)
            for h in header_exprs(node):
                for n in walk_no_nested(h):
                    if is_self_attr(n, sn) and isinstance(n.ctx, (ast.Store, ast.Del)):
                        # a store inside a comprehension / conditional expression is still a store
                        st.add(n.attr)
                    elif _dict_pop(n, sn):
                        st.add(_dict_pop(n, sn))
                    elif isinstance(n, ast.Call) and is_self_attr(n.func, sn):
                        tgt = cls.lookup(n.func.attr)
                        if tgt is not None and tgt.kind == 'method':
                            st |= self.must(cls, tgt)
                    elif isinstance(n, ast.Call) and isinstance(n.func, ast.Name) and n.func.id == 'setattr' \
                            and len(n.args) >= 2 and isinstance(n.args[0], ast.Name) and n.args[0].id == sn \
                            and isinstance(n.args[1], ast.Constant):
                        st.add(n.args[1].value)
            return frozenset(st)

        TOPSET = None
        states = forward(cfg, frozenset(), transfer, lambda a, b: a & b, exceptional=False)
        res = states.get(cfg.exit.id, frozenset())
        self.busy.discard(key)
        self.memo[key] = frozenset(res)
        return self.memo[key]

    def must_when(self, cls, m, truth):
        """Attributes definitely written by m on the paths on which it returns a value of the given truth."""
        from .idioms import enum_paths
        key = (cls.qualname, m.qualname, truth)
        if key in self.memo:
            return self.memo[key]
        if key in self.busy:
            return frozenset()
        self.busy.add(key)
        sn = m.self_name
        res = None
        for path in enum_paths(m.body()):
            end = path.end
            if isinstance(end, ast.Raise):
                continue
            val = end.value if isinstance(end, ast.Return) else ast.Constant(value=None)
            if val is None:
                val = ast.Constant(value=None)
            if isinstance(val, ast.Constant):
                if bool(val.value) != truth:
                    continue
            else:
                # the returned value is (a local holding) a condition that was tested on this path
                known = None
                neg = False
                v2 = val
                while isinstance(v2, ast.UnaryOp) and isinstance(v2.op, ast.Not):
                    v2, neg = v2.operand, not neg
                for test, pol in path.conds:
                    t2, p2 = test, pol
                    while isinstance(t2, ast.UnaryOp) and isinstance(t2.op, ast.Not):
                        t2, p2 = t2.operand, not p2
                    if isinstance(t2, ast.expr) and ast.dump(t2) == ast.dump(v2):
                        known = (p2 != neg)
                if known is not None and known != truth:
                    continue
            written = set()
            for s_ in path.stmts:
                node = getattr(s_, 'node', s_)
                if hasattr(s_, 'node'):
                    continue  # compound headers write nothing themselves
                for n in walk_no_nested(node):
                    if is_self_attr(n, sn) and isinstance(n.ctx, (ast.Store, ast.Del)):
                        written.add(n.attr)
                    elif _dict_pop(n, sn):
                        written.add(_dict_pop(n, sn))
                    elif isinstance(n, ast.Call) and is_self_attr(n.func, sn):
                        tgt = cls.lookup(n.func.attr)
                        if tgt is not None and tgt.kind == 'method':
                            written |= self.must(cls, tgt)
            res = written if res is None else (res & written)
        self.busy.discard(key)
        self.memo[key] = frozenset(res or ())
        return self.memo[key]

    def may(self, cls, m):
        _r, w = self.fx.transitive(m, cls)
        return w


def _dict_pop(n, sn):
    """self.__dict__.pop('name', ...) / vars(self).pop('name') / delattr(self, 'name') -> 'name'."""
    if isinstance(n, ast.Call) and isinstance(n.func, ast.Attribute) and n.func.attr == 'pop' and n.args \
            and isinstance(n.args[0], ast.Constant) and isinstance(n.args[0].value, str):
        r = n.func.value
        if isinstance(r, ast.Name):
            # a local alias of the instance dict: overrides = self.__dict__ / vars(self)
            p_ = n
            while p_ is not None and not isinstance(p_, (ast.FunctionDef, ast.AsyncFunctionDef)):
                p_ = getattr(p_, '_parent', None)
            if p_ is not None:
                from .idioms import single_def
                d = single_def(p_, r.id)
                if isinstance(d, ast.AST):
                    r = d
        if isinstance(r, ast.Attribute) and r.attr == '__dict__' and isinstance(r.value, ast.Name) and r.value.id == sn:
            return n.args[0].value
        if isinstance(r, ast.Call) and isinstance(r.func, ast.Name) and r.func.id == 'vars' and r.args \
                and isinstance(r.args[0], ast.Name) and r.args[0].id == sn:
            return n.args[0].value
    if isinstance(n, ast.Call) and isinstance(n.func, ast.Name) and n.func.id == 'delattr' and len(n.args) == 2 \
            and isinstance(n.args[0], ast.Name) and n.args[0].id == sn and isinstance(n.args[1], ast.Constant):
        return n.args[1].value
    return None


# ------------------------------------------------------------------------ np.empty coverage
def empty_buffers(prog):
    """[(fn, assign stmt, buffer target expr, shape expr)] for every np.empty(...) allocation."""
    out = []
    for fn in prog.functions.values():
        for n in walk_no_nested(fn.node):
            if isinstance(n, ast.Call) and prog.resolve(fn.module, n.func) in ('numpy.empty', 'numpy.empty_like',
                                                                                 'numpy.ndarray'):
                st = getattr(n, '_parent', None)
                if isinstance(st, ast.Assign) and st.value is n and len(st.targets) == 1:
                    out.append((fn, st, st.targets[0], n.args[0] if n.args else None))
                else:
                    out.append((fn, n, None, n.args[0] if n.args else None))
    return out


def _same_expr(a, b):
    return a is not None and b is not None and ast.dump(a) == ast.dump(b)


def _range_bound(loop):
    """for v in range(E) -> (v, E)."""
    if isinstance(loop, ast.For) and isinstance(loop.target, ast.Name) and isinstance(loop.iter, ast.Call) \
            and isinstance(loop.iter.func, ast.Name) and loop.iter.func.id == 'range' and len(loop.iter.args) == 1:
        return loop.target.id, loop.iter.args[0]
    return None


def _unconditional_in(loop, stmt):
    """stmt is a direct child of loop.body and no break/continue/return precedes it in the body."""
    if stmt not in loop.body:
        return False
    for s in loop.body[:loop.body.index(stmt)]:
        for n in ast.walk(s):
            if isinstance(n, (ast.Break, ast.Continue, ast.Return, ast.Raise)):
                return False
    return True


def _local_alias(fn, name):
    """name = <expr> single assignment -> expr."""
    vals = [n.value for n in walk_no_nested(fn.node) if isinstance(n, ast.Assign) and len(n.targets) == 1
            and isinstance(n.targets[0], ast.Name) and n.targets[0].id == name]
    return vals[0] if len(vals) == 1 else None


def coverage(prog, fn, st, target, shape):
    """Returns (status, explanation): status in covered | enumerate | uncovered | unknown."""
    if target is None or shape is None:
        return 'unknown', 'allocation is not bound to a name'
    dims = shape.elts if isinstance(shape, (ast.List, ast.Tuple)) else [shape]
    tdump = ast.dump(target).replace('Store()', 'Load()')
    stores = []
    for n in walk_no_nested(fn.node):
        if isinstance(n, ast.Subscript) and isinstance(n.ctx, ast.Store) and ast.dump(n.value) == tdump:
            stores.append(n)
    # a view handed to a project helper that fills its parameter completely (`out[:] = ...` / `out[...] = ...` at the top of its body)
    # is a store of that view at the call; a buffer or view handed to anything else is filled we do not know where
    escapes = []
    for c in walk_no_nested(fn.node):
        if not isinstance(c, ast.Call):
            continue
        for pos_, a in enumerate(c.args):
            view = a if isinstance(a, ast.Subscript) and ast.dump(a.value) == tdump else None
            whole = ast.dump(a) == tdump
            if view is None and not whole:
                continue
            g = None
            if isinstance(c.func, ast.Attribute) and isinstance(c.func.value, ast.Name) and fn.self_name and c.func.value.id == fn.self_name and fn.cls is not None:
                g = fn.cls.lookup(c.func.attr)
                params = g.params[1:] if g is not None and g.self_name else (g.params if g is not None else [])
            else:
                g = prog.functions.get(prog.resolve(fn.module, c.func) or '')
                params = g.params if g is not None else []
            filled = False
            if g is not None and pos_ < len(params):
                pn = params[pos_]
                for hs in g.node.body:
                    if isinstance(hs, ast.Assign) and len(hs.targets) == 1 and isinstance(hs.targets[0], ast.Subscript) and isinstance(hs.targets[0].value, ast.Name) \
                            and hs.targets[0].value.id == pn:
                        sl = hs.targets[0].slice
                        if (isinstance(sl, ast.Slice) and sl.lower is None and sl.upper is None and sl.step is None) or (isinstance(sl, ast.Constant) and sl.value is Ellipsis):
                            filled = True
            if filled and view is not None:
                stores.append(view)
            elif filled and whole:
                return 'covered', f'filled completely by {g.name}'
            else:
                escapes.append(c)
    if not stores:
        if escapes:
            return 'unknown', f'the buffer is handed to `{short(escapes[0], 50)}`; where it is filled is not followed'
        return 'uncovered', 'no element store at all'
    # per-axis analysis of each store
    per_store = []
    for s in stores:
        idx = s.slice.elts if isinstance(s.slice, ast.Tuple) else [s.slice]
        if len(idx) != len(dims):
            # boolean-mask store such as temp[np.isnan(temp)] = -10 does not add coverage
            continue
        stmt = s
        while not isinstance(stmt, ast.stmt):
            stmt = stmt._parent
        axes = []
        for ax, (i, d) in enumerate(zip(idx, dims)):
            if isinstance(i, ast.Slice) and i.lower is None and i.upper is None and i.step is None:
                axes.append(('all',))
            elif isinstance(i, ast.Constant) and isinstance(i.value, int):
                axes.append(('const', i.value))
            elif isinstance(i, ast.Name):
                # loop variable of an enclosing for-range over the same bound, unconditional store
                p = stmt._parent
                found = None
                child = stmt
                while p is not None and p is not fn.node:
                    if isinstance(p, ast.For):
                        rb = _range_bound(p)
                        if rb and rb[0] == i.id:
                            bound = rb[1]
                            if isinstance(bound, ast.Name):
                                al = _local_alias(fn, bound.id)
                                alias_ok = al is not None and _same_expr(al, d)
                            else:
                                alias_ok = False
                            same = _same_expr(bound, d) or alias_ok or (
                                isinstance(d, ast.Name) and _local_alias(fn, d.id) is not None
                                and _same_expr(_local_alias(fn, d.id), bound))
                            if same and child is stmt and _unconditional_in(p, child):
                                found = ('loop', short(bound))
                            elif same:
                                found = ('cond-loop', short(bound))
                            else:
                                found = ('other-loop', short(bound))
                            break
                        if isinstance(p.target, ast.Tuple) and any(isinstance(e, ast.Name) and e.id == i.id for e in p.target.elts) \
                                and isinstance(p.iter, ast.Call) and isinstance(p.iter.func, ast.Name) and p.iter.func.id == 'enumerate':
                            # enumerate(X) with the dimension written as len(X): exactly len(X) iterations
                            it0 = p.iter.args[0] if p.iter.args else None
                            dd = d
                            if isinstance(dd, ast.Name) and _local_alias(fn, dd.id) is not None:
                                dd = _local_alias(fn, dd.id)
                            is_len = isinstance(dd, ast.Call) and isinstance(dd.func, ast.Name) and dd.func.id == 'len' and dd.args \
                                and it0 is not None and _same_expr(dd.args[0], it0)
                            if is_len and child is stmt and _unconditional_in(p, child):
                                found = ('loop', short(p.iter))
                            else:
                                found = ('enumerate', short(p.iter)) if (child is stmt and _unconditional_in(p, child)) else ('cond-loop', short(p.iter))
                            break
                        if isinstance(p.target, ast.Name) and p.target.id == i.id:
                            found = ('other-loop', short(p.iter))
                            break
                    child = p
                    p = p._parent
                axes.append(found or ('unknown', i.id))
            else:
                axes.append(('unknown', short(i)))
        per_store.append((s, axes))
    if not per_store:
        return 'uncovered', 'only masked stores'
    # joint coverage: for every axis either 'all'/'loop' in one store, or constants covering a literal dim
    naxes = len(dims)
    # group stores that agree on all non-constant axes being all/loop
    full = [ax for _s, ax in per_store if all(a[0] in ('all', 'loop', 'const', 'enumerate') for a in ax)]
    if full:
        ok_axes = []
        kinds = set()
        for k in range(naxes):
            col = [ax[k] for ax in full]
            if any(a[0] in ('all', 'loop') for a in col) and all(a[0] in ('all', 'loop') for a in col):
                ok_axes.append(True)
            elif all(a[0] == 'enumerate' for a in col):
                ok_axes.append(True)
                kinds.add('enumerate')
            elif all(a[0] == 'const' for a in col):
                d = dims[k]
                if isinstance(d, ast.Constant) and isinstance(d.value, int):
                    ok_axes.append({a[1] for a in col} >= set(range(d.value)))
                else:
                    ok_axes.append(False)
            else:
                ok_axes.append(False)
        if all(ok_axes):
            if 'enumerate' in kinds:
                return 'enumerate', 'one axis is covered by enumerate() over the object whose shape sized the buffer'
            return 'covered', 'every axis is covered by a slice, a loop over the same bound, or all constant indices'
    detail = '; '.join(f'{short(s, 40)}: {[a[0] for a in ax]}' for s, ax in per_store)
    return 'uncovered', f'stores do not jointly cover the buffer ({detail})'
