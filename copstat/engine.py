"""Glue: build the program model once, run the rule module of a property, produce the report."""

import importlib
import os
import sys
import traceback

from .callgraph import CallGraph
from .model import AnalysisError, PrivateAnchorMissing, Program
from .report import Report

PROPERTIES = [f'C{i:02d}' for i in range(1, 21)]


class Ctx:
    def __init__(self, overlay=None, tier='quick', root=None):
        self.prog = Program(root=root, overlay=overlay)
        self.cg = CallGraph(self.prog)
        self.tier = tier
        self.memo = {}

    @property
    def thorough(self):
        return self.tier == 'thorough'


def run_property(pid, tier='quick', overlay=None, write=True, quiet=False, replay_key=None, ctx=None,
                 root=None):
    """Returns (exit code, Report).  Raises AnalysisError for analysis failures."""
    seed = int(os.environ.get('VERIF_SEED', '0') or 0)
    rep = Report(pid, tier, seed)
    ctx = ctx or Ctx(overlay=overlay, tier=tier, root=root)
    ctx.tier = tier
    mod = importlib.import_module(f'copstat.rules.{pid.lower()}')
    try:
        mod.run(ctx, rep)
    except PrivateAnchorMissing as exc:
        rep.private_missing('all remaining rules', exc)
    stats = ctx.prog.stats()
    res, tot = ctx.cg.resolution_rate()
    stats['calls_resolved'] = res
    stats['calls_total'] = tot
    if stats['modules'] < 26 or stats['functions'] < 225:
        raise AnalysisError(f'only {stats["modules"]} modules / {stats["functions"]} functions parsed '
                            '(pinned tree: 29 / 250+): part of the package was not analysed')
    code = rep.finish(prog_stats=stats, write=write, quiet=quiet, replay_key=replay_key)
    return code, rep


def main(argv=None):
    import argparse
    import json
    import signal
    if hasattr(signal, 'SIGPIPE'):
        signal.signal(signal.SIGPIPE, signal.SIG_DFL)   # a reader that closes the pipe (`| head`) ends the run quietly, not with a traceback
    ap = argparse.ArgumentParser(prog='check')
    ap.add_argument('prop')
    ap.add_argument('--tier', default=os.environ.get('VERIF_TIER', 'quick'), choices=['quick', 'thorough'])
    ap.add_argument('--replay')
    ap.add_argument('--no-selftest', action='store_true')
    args = ap.parse_args(argv)
    props = PROPERTIES if args.prop == 'all' else [args.prop.upper()]
    worst = 0
    for pid in props:
        try:
            replay_key = None
            if args.replay:
                with open(args.replay) as fh:
                    replay_key = json.load(fh)['key']
            code, rep = run_property(pid, args.tier, replay_key=replay_key, write=not args.replay)
            if args.replay:
                print(f'replay: the recorded violation is {"STILL PRESENT" if code else "no longer present"}')
            if args.tier == 'thorough' and not args.replay and not args.no_selftest:
                from . import selftest
                st_code = selftest.run_for(pid, rep)
                code = max(code, st_code)
        except AnalysisError as exc:
            print(f'ANALYSIS-ERROR property={pid} {exc}')
            code = 2
        except Exception:  # internal error of the checker: never a VIOLATION
            print(f'ANALYSIS-ERROR property={pid} internal error')
            traceback.print_exc()
            code = 2
        worst = max(worst, code)
    return worst


if __name__ == '__main__':
    sys.exit(main())
