"""E6 - associative/commutative syntactic normal form of numeric expressions.

Inline single-assignment local temporaries, normalise spellings (np.power(a, b) == a ** b, a - b == a + (-1)*b,
a / b == a * b ** -1, x.mean() == np.mean(x)), flatten + and *, sort the operands of commutative operators.
No distribution, no algebra beyond that: it stays a *syntactic* normal form, so equal normal forms mean equal
functions, while different normal forms only mean "not shown equal".
"""

import ast

from .model import walk_no_nested

FUNC_ALIASES = {
    'numpy.power': 'pow', 'numpy.exp': 'exp', 'numpy.log': 'log', 'numpy.sqrt': 'sqrt', 'numpy.abs': 'abs', 'abs': 'abs',
    'numpy.absolute': 'abs', 'numpy.sign': 'sign', 'numpy.minimum': 'minimum', 'numpy.maximum': 'maximum',
    'numpy.logical_or': 'or', 'numpy.logical_and': 'and', 'numpy.zeros': 'zeros', 'numpy.ones': 'ones',
    'numpy.array': 'array', 'numpy.full': 'full', 'numpy.clip': 'clip', 'numpy.choose': 'choose', 'numpy.all': 'all',
    'numpy.any': 'any', 'numpy.shape': 'shape', 'numpy.where': 'where', 'numpy.isnan': 'isnan',
}
METHOD_AS_FUNC = {'mean', 'std', 'min', 'max', 'sum', 'all', 'any', 'var'}


class NF:
    def __init__(self, prog, fn, rename=None, batch_names=(), opaque_self_calls=True):
        self.prog = prog
        self.fn = fn
        self.rename = rename or {}
        self.batch_names = set(batch_names)
        self.defs = self._single_defs()
        self.env = None  # sequential environment (function_nf): name -> normal form

    def _single_defs(self):
        counts, vals = {}, {}
        for n in walk_no_nested(self.fn.node):
            if isinstance(n, ast.Assign):
                for t in n.targets:
                    if isinstance(t, ast.Name):
                        counts[t.id] = counts.get(t.id, 0) + 1
                        vals[t.id] = n.value
                    elif isinstance(t, (ast.Tuple, ast.List)):
                        for i, e in enumerate(t.elts):
                            if isinstance(e, ast.Name):
                                counts[e.id] = counts.get(e.id, 0) + 1
                                if isinstance(n.value, (ast.Tuple, ast.List)) and len(n.value.elts) == len(t.elts):
                                    vals[e.id] = n.value.elts[i]
                                else:
                                    vals[e.id] = ('unpack', n.value, i)
            elif isinstance(n, (ast.AugAssign, ast.For, ast.comprehension, ast.NamedExpr)):
                tgt = n.target
                for x in ast.walk(tgt):
                    if isinstance(x, ast.Name):
                        counts[x.id] = counts.get(x.id, 0) + 2
        return {k: v for k, v in vals.items() if counts.get(k) == 1}

    # ---------------------------------------------------------------- helpers
    @staticmethod
    def _key(x):
        return repr(x)

    def add(self, terms):
        flat = []
        for t in terms:
            if isinstance(t, tuple) and t and t[0] == '+':
                flat.extend(t[1:])
            elif t == ('num', 0):
                continue
            else:
                flat.append(t)
        if not flat:
            return ('num', 0)
        if len(flat) == 1:
            return flat[0]
        return ('+',) + tuple(sorted(flat, key=self._key))

    def mul(self, factors):
        flat = []
        coef = 1
        for t in factors:
            if isinstance(t, tuple) and t and t[0] == '*':
                flat.extend(t[1:])
            else:
                flat.append(t)
        nums = [f for f in flat if isinstance(f, tuple) and f[0] == 'num' and isinstance(f[1], (int, float))]
        rest = [f for f in flat if f not in nums]
        for n in nums:
            coef = coef * n[1]
        out = rest
        if coef != 1 or not out:
            out = [('num', coef)] + out
        if len(out) == 1:
            return out[0]
        return ('*',) + tuple(sorted(out, key=self._key))

    def neg(self, t):
        return self.mul([('num', -1), t])

    def pow(self, b, e):
        if e == ('num', 1):
            return b
        if isinstance(b, tuple) and b[0] == 'num' and isinstance(e, tuple) and e[0] == 'num' and isinstance(b[1], (int, float)) \
                and isinstance(e[1], (int, float)) and b[1] != 0:
            try:
                v = float(b[1]) ** e[1]
                return ('num', int(v) if v == int(v) else v)
            except (OverflowError, ValueError):
                pass
        if isinstance(b, tuple) and b and b[0] == 'pow':
            return ('pow', b[1], self.mul([b[2], e]))
        return ('pow', b, e)

    # -------------------------------------------------------------------- main
    def nf(self, e, depth=0):
        prog = self.prog
        if isinstance(e, tuple) and e and e[0] == 'unpack':
            return ('unpack', self.nf(e[1], depth), e[2])
        if isinstance(e, ast.Constant):
            if isinstance(e.value, bool) or e.value is None or isinstance(e.value, str):
                return ('const', e.value)
            v = e.value
            if isinstance(v, float) and v == int(v):
                v = int(v)
            return ('num', v)
        if isinstance(e, ast.Name):
            nm = e.id
            if nm in self.rename:
                return ('name', self.rename[nm])
            if self.env is not None:
                if nm in self.env:
                    return self.env[nm]
            elif nm in self.defs and depth < 12:
                return self.nf(self.defs[nm], depth + 1)
            dotted = prog.resolve(self.fn.module, e)
            if dotted and dotted != nm and '.' in dotted:
                return ('global', dotted)
            return ('name', nm)
        if isinstance(e, ast.Attribute):
            dotted = prog.resolve(self.fn.module, e)
            if dotted:
                if dotted in ('numpy.inf',):
                    return ('global', 'inf')
                return ('global', dotted)
            base = self.nf(e.value, depth)
            if e.attr == 'shape':
                return ('shape', base)
            return ('attr', base, e.attr)
        if isinstance(e, ast.BinOp):
            l, r = self.nf(e.left, depth), self.nf(e.right, depth)
            if isinstance(e.op, ast.Add):
                return self.add([l, r])
            if isinstance(e.op, ast.Sub):
                return self.add([l, self.neg(r)])
            if isinstance(e.op, ast.Mult):
                return self.mul([l, r])
            if isinstance(e.op, ast.Div):
                return self.mul([l, self.pow(r, ('num', -1))])
            if isinstance(e.op, ast.Pow):
                return self.pow(l, r)
            if isinstance(e.op, ast.MatMult):
                return ('@', l, r)
            if isinstance(e.op, (ast.BitAnd, ast.BitOr, ast.BitXor)):
                return (type(e.op).__name__,) + tuple(sorted([l, r], key=self._key))
            return (type(e.op).__name__, l, r)
        if isinstance(e, ast.UnaryOp):
            v = self.nf(e.operand, depth)
            if isinstance(e.op, ast.USub):
                return self.neg(v)
            if isinstance(e.op, ast.UAdd):
                return v
            if isinstance(e.op, ast.Not):
                return ('not', v)
            return ('inv', v)
        if isinstance(e, ast.Compare):
            parts = [self.nf(e.left, depth)] + [self.nf(c, depth) for c in e.comparators]
            ops = [type(o).__name__ for o in e.ops]
            if len(ops) == 1:
                op, (a, b) = ops[0], parts
                flip = {'Gt': 'Lt', 'GtE': 'LtE'}
                if op in flip:
                    op, a, b = flip[op], b, a
                if op in ('Eq', 'NotEq'):
                    a, b = sorted([a, b], key=self._key)
                return ('cmp', op, a, b)
            return ('cmpchain', tuple(ops)) + tuple(parts)
        if isinstance(e, ast.BoolOp):
            vals = [self.nf(v, depth) for v in e.values]
            return ('and' if isinstance(e.op, ast.And) else 'or',) + tuple(sorted(vals, key=self._key))
        if isinstance(e, ast.IfExp):
            return ('ifexp', self.nf(e.test, depth), self.nf(e.body, depth), self.nf(e.orelse, depth))
        if isinstance(e, ast.Subscript):
            base = self.nf(e.value, depth)
            if isinstance(base, tuple) and base[0] == 'shape' and isinstance(e.slice, ast.Constant) and e.slice.value == 0 \
                    and base[1][0] == 'name' and base[1][1] in self.batch_names:
                return ('BATCH',)
            if isinstance(base, tuple) and base[0] == 'unpack':
                pass
            return ('idx', base, self.nf(e.slice, depth))
        if isinstance(e, ast.Slice):
            return ('slice', self.nf(e.lower, depth) if e.lower else None, self.nf(e.upper, depth) if e.upper else None,
                    self.nf(e.step, depth) if e.step else None)
        if isinstance(e, (ast.Tuple, ast.List)):
            return ('seq',) + tuple(self.nf(x, depth) for x in e.elts)
        if isinstance(e, ast.Call):
            return self.call(e, depth)
        if isinstance(e, (ast.ListComp, ast.GeneratorExp)):
            g = e.generators[0]
            return ('comp', self.nf(e.elt, depth), self.nf(g.target, depth), self.nf(g.iter, depth),
                    tuple(self.nf(c, depth) for c in g.ifs))
        if e is None:
            return None
        return ('opaque', ast.dump(e))

    def call(self, e, depth):
        prog = self.prog
        dotted = prog.resolve(self.fn.module, e.func)
        args = [self.nf(a, depth) for a in e.args]
        kws = tuple(sorted((k.arg or '**', self.nf(k.value, depth)) for k in e.keywords))
        name = None
        if dotted in FUNC_ALIASES:
            name = FUNC_ALIASES[dotted]
        elif dotted:
            name = dotted
        elif isinstance(e.func, ast.Attribute):
            recv = self.nf(e.func.value, depth)
            if e.func.attr in METHOD_AS_FUNC:
                name = e.func.attr
                args = [recv] + args
            else:
                inl = self._inline_method(e, args, depth)
                if inl is not None:
                    return inl
                # method call on an object: self.m(x) stays an uninterpreted symbol
                return ('mcall', recv, e.func.attr) + tuple(args) + kws
        elif isinstance(e.func, ast.Name):
            name = e.func.id
        if name == 'len' and len(args) == 1 and args[0][0] == 'name' and args[0][1] in self.batch_names:
            return ('BATCH',)
        if dotted in ('numpy.ones_like', 'numpy.zeros_like') and len(args) == 1 and args[0][0] == 'name' and args[0][1] in self.batch_names:
            return ('call', dotted.split('.')[1][:-5], ('BATCH',))
        if dotted and dotted in self.prog.functions and not e.keywords and depth <= 6:
            g = self.prog.functions[dotted]
            if g.cls is None and g.outer is None and g.name.startswith('_') and len(g.params) == len(args):
                sub = NF(self.prog, g, batch_names=self.batch_names)
                sub.env = dict(zip(g.params, args))
                ok = True
                for s_ in g.body():
                    if isinstance(s_, ast.Assign) and len(s_.targets) == 1 and isinstance(s_.targets[0], ast.Name):
                        sub.env[s_.targets[0].id] = sub.nf(s_.value, depth + 1)
                    elif isinstance(s_, ast.Return) and s_.value is not None:
                        return sub.nf(s_.value, depth + 1)
                    elif isinstance(s_, ast.Expr) and isinstance(s_.value, ast.Constant):
                        continue
                    else:
                        break
        if name == 'pow' and len(args) == 2:
            return self.pow(args[0], args[1])
        if name in ('numpy.mean', 'numpy.std', 'numpy.min', 'numpy.max', 'numpy.sum', 'numpy.var'):
            name = name.split('.')[-1]
        if name in ('or', 'and', 'minimum_', 'maximum_'):
            return (name,) + tuple(sorted(args, key=self._key))
        return ('call', name) + tuple(args) + kws


def _inline_method(self, e, args, depth):
    """self._helper(a, b) with a straight-line single-return private helper: the helper's normal form with its
    parameters bound to the argument normal forms."""
    f = e.func
    owner = self.fn
    while owner is not None and not (owner.cls is not None and owner.self_name):
        owner = owner.outer
    if owner is None or not (isinstance(f.value, ast.Name) and f.value.id == owner.self_name) or e.keywords or depth > 6:
        return None
    if not f.attr.startswith('_') or f.attr.startswith('__'):
        return None
    m = owner.cls.lookup(f.attr)
    if m is None or m.kind != 'method' or len(m.params) - 1 != len(args):
        return None
    sub = NF(self.prog, m, batch_names=self.batch_names)
    sub.env = dict(zip(m.params[1:], args))
    for s_ in m.body():
        if isinstance(s_, ast.Assign) and len(s_.targets) == 1 and isinstance(s_.targets[0], ast.Name):
            sub.env[s_.targets[0].id] = sub.nf(s_.value, depth + 1)
        elif isinstance(s_, ast.Return) and s_.value is not None:
            return sub.nf(s_.value, depth + 1)
        elif isinstance(s_, ast.Expr) and isinstance(s_.value, ast.Constant):
            continue
        else:
            return None
    return None


NF._inline_method = _inline_method


def function_nf(prog, fn, rename=None, batch_names=(), skip_calls=()):
    """Normal form of a whole (loop-free) function body as a decision tree of its returns."""
    nf = NF(prog, fn, rename=rename, batch_names=batch_names)
    nf.env = {}

    def bind(target, value_nf, value_ast):
        if isinstance(target, ast.Name):
            if target.id not in nf.rename:
                nf.env[target.id] = value_nf
        elif isinstance(target, (ast.Tuple, ast.List)):
            for i, t in enumerate(target.elts):
                if isinstance(value_ast, (ast.Tuple, ast.List)) and len(value_ast.elts) == len(target.elts):
                    bind(t, nf.nf(value_ast.elts[i]), value_ast.elts[i])
                else:
                    bind(t, ('unpack', value_nf, i), None)

    def block(stmts):
        for i, s in enumerate(stmts):
            if isinstance(s, ast.Return):
                return ('ret', nf.nf(s.value) if s.value is not None else None)
            if isinstance(s, ast.Raise):
                return ('raise',)
            if isinstance(s, ast.If):
                rest = stmts[i + 1:]
                saved = dict(nf.env)
                test = nf.nf(s.test)
                a = block(list(s.body) + rest)
                nf.env = dict(saved)
                b = block(list(s.orelse) + rest)
                nf.env = saved
                return ('if', test, a, b)
            if isinstance(s, ast.Assign):
                v = nf.nf(s.value)
                for t in s.targets:
                    bind(t, v, s.value)
                continue
            if isinstance(s, ast.AugAssign) and isinstance(s.target, ast.Name):
                fake = ast.BinOp(left=ast.Name(id=s.target.id, ctx=ast.Load()), op=s.op, right=s.value)
                nf.env[s.target.id] = nf.nf(fake)
                continue
            if isinstance(s, ast.Expr) and isinstance(s.value, ast.Call):
                nm = s.value.func.attr if isinstance(s.value.func, ast.Attribute) else getattr(s.value.func, 'id', '')
                if nm in skip_calls:
                    continue
                return ('opaque-stmt', ast.dump(s))
            if isinstance(s, (ast.Assign, ast.Pass)) or (isinstance(s, ast.Expr) and isinstance(s.value, ast.Constant)):
                continue
            return ('opaque-stmt', type(s).__name__)
        return ('ret', None)

    return block(fn.body())


def nf_interval(t, env):
    """Interval value of a normal-form tree with its free names bound to intervals (copstat.ivkind.IV); None when the tree
    contains a node this evaluator does not model.  Used to *refute* the equality of two normal forms that are not
    syntactically equal: disjoint values on a common box mean different functions."""
    from .ivkind import IV, add, exp, log, mul, power
    if not isinstance(t, tuple) or not t:
        return None
    k = t[0]
    if k == 'num':
        return IV(float(t[1])) if isinstance(t[1], (int, float)) else None
    if k == 'name':
        return env.get(t[1])
    if k == '+':
        out = IV(0.0)
        for x in t[1:]:
            v = nf_interval(x, env)
            if v is None:
                return None
            out = add(out, v)
        return out
    if k == '*':
        out = IV(1.0)
        for x in t[1:]:
            v = nf_interval(x, env)
            if v is None:
                return None
            out = mul(out, v)
        return out
    if k == 'pow':
        b, e = nf_interval(t[1], env), nf_interval(t[2], env)
        return power(b, e) if b is not None and e is not None else None
    if k == 'call' and len(t) == 3 and t[1] in ('exp', 'log', 'abs', 'sqrt'):
        v = nf_interval(t[2], env)
        if v is None:
            return None
        from .ivkind import absv, sqrt
        return {'exp': exp, 'log': log, 'abs': absv, 'sqrt': sqrt}[t[1]](v)
    return None


def nf_names(t, acc=None):
    acc = set() if acc is None else acc
    if isinstance(t, tuple):
        if t and t[0] == 'name' and len(t) == 2 and isinstance(t[1], str):
            acc.add(t[1])
        else:
            for x in t[1:] if t and isinstance(t[0], str) else t:
                nf_names(x, acc)
    return acc


def nf_refute_equal(a, b, boxes=3):
    """True when two normal forms take disjoint interval values on some narrow box of their (common) free names."""
    from .ivkind import IV
    names = sorted(nf_names(a) | nf_names(b))
    if not names or len(names) > 12:
        return False
    seeds = [(0.37, 0.11), (1.9, 0.23), (0.71, 0.53)][:boxes]
    for base, step in seeds:
        env = {n: IV(base + step * i, base + step * i + 1e-9) for i, n in enumerate(names)}
        x, y = nf_interval(a, env), nf_interval(b, env)
        if x is None or y is None or x.nan or y.nan:
            continue
        tol = 1e-6 * max(1.0, abs(x.lo), abs(x.hi), abs(y.lo), abs(y.hi))
        if x.lo > y.hi + tol or x.hi < y.lo - tol:
            return True
    return False
