"""Obligation bookkeeping, known-findings matching, evidence and replay files."""

import hashlib
import json
import os
import time

from .model import AnalysisError, short

VERIF = os.path.dirname(os.path.dirname(os.path.abspath(__file__)))
KNOWN_FILE = os.path.join(VERIF, 'known_findings.json')

OK, VIOLATION, UNDECIDED, TRIAGED = 'ok', 'violation', 'undecided', 'triaged'


def norm_construct(node_or_text):
    if isinstance(node_or_text, str):
        return ' '.join(node_or_text.split())
    return ' '.join(short(node_or_text, 400).split())


class Obligation:
    __slots__ = ('rule', 'func', 'where', 'construct', 'status', 'msg', 'path')

    def __init__(self, rule, func, where, construct, status, msg, path=None):
        self.rule = rule
        self.func = func
        self.where = where
        self.construct = construct
        self.status = status
        self.msg = msg
        self.path = path

    def key(self, prop):
        return (prop, self.rule, self.func, self.construct)

    def as_dict(self):
        d = {'rule': self.rule, 'function': self.func, 'where': self.where, 'construct': self.construct,
             'status': self.status, 'what': self.msg}
        if self.path:
            d['path'] = self.path
        return d


class Report:
    """Collects the obligations of one property run."""

    def __init__(self, prop, tier='quick', seed=0):
        self.prop = prop
        self.tier = tier
        self.seed = seed
        self.obls = []
        self.rules = {}  # rule id -> description
        self.floors = []  # (rule, what, count, minimum)
        self.trusted = set()
        self.assumptions = []
        self.notes = []
        self.extra = {}
        self.t0 = time.time()

    # ------------------------------------------------------------------- record
    def rule(self, rid, text):
        self.rules.setdefault(rid, text)

    def add(self, rule, fn, node, status, msg, construct=None, path=None, func=None):
        """func: overrides the function part of the obligation's key (e.g. the owning class, so that moving the construct into
        another private method does not change the identity of a recorded finding); the location still comes from fn/node."""
        if rule not in self.rules:
            raise AnalysisError(f'rule {rule} used before being declared')
        func = func or (fn if isinstance(fn, str) else (fn.short if fn is not None else '-'))
        where = '-'
        if fn is not None and not isinstance(fn, str):
            where = fn.where(node if (node is not None and not isinstance(node, str)) else None)
        if construct is None:
            construct = norm_construct(node) if node is not None else '-'
        else:
            construct = norm_construct(construct)
        o = Obligation(rule, func, where, construct, status, msg, path)
        self.obls.append(o)
        return o

    def ok(self, rule, fn, node, msg, **kw):
        return self.add(rule, fn, node, OK, msg, **kw)

    def bad(self, rule, fn, node, msg, **kw):
        return self.add(rule, fn, node, VIOLATION, msg, **kw)

    def undecided(self, rule, fn, node, msg, **kw):
        return self.add(rule, fn, node, UNDECIDED, msg, **kw)

    def triaged(self, rule, fn, node, msg, **kw):
        return self.add(rule, fn, node, TRIAGED, msg, **kw)

    def check(self, rule, fn, node, cond, okmsg, badmsg=None, **kw):
        if cond:
            return self.ok(rule, fn, node, okmsg, **kw)
        return self.bad(rule, fn, node, badmsg or ('NOT: ' + okmsg), **kw)

    def guarded(self, group, f, *args, **kw):
        """Run one group of rules; a vanished *private* helper turns the rest of the group into one UNDECIDED obligation."""
        from .model import PrivateAnchorMissing
        try:
            return f(*args, **kw)
        except PrivateAnchorMissing as exc:
            self.private_missing(group, exc)
            return None

    def private_missing(self, group, exc):
        self.rule('A0.private', 'private helpers a rule group looks at exist under the name the rule knows (informational: private names are not '
                  'anchors; when one is renamed, inlined or split the group reports UNDECIDED instead of failing)')
        self.add('A0.private', exc.what.rsplit('.', 1)[0].replace('copulas.', ''), None, UNDECIDED,
                 f'{exc}: rule group {group} was not (fully) evaluated', construct=f'{group}: {exc.what.rsplit(".", 1)[-1]}')

    def floor(self, rule, what, count, minimum):
        self.floors.append((rule, what, count, minimum))

    def trust(self, *entries):
        self.trusted.update(entries)

    # ------------------------------------------------------------------ finish
    def finish(self, prog_stats=None, write=True, replay_key=None, quiet=False):
        for rule, what, count, minimum in self.floors:
            if count < minimum:
                raise AnalysisError(
                    f'instance floor: rule {rule} found {count} {what}, fewer than the {minimum} confirmed by hand')
        known = load_known()
        viol = [o for o in self.obls if o.status == VIOLATION]
        known_hits, new = [], []
        seen = set()
        for o in viol:
            k = o.key(self.prop)
            if k in seen:
                continue
            seen.add(k)
            ent = known.get(k)
            if ent is not None and ent.get('status') == 'known':
                known_hits.append((o, ent))
            else:
                new.append(o)
        lines = []
        for o, ent in known_hits:
            lines.append(f'KNOWN-FINDING: property={self.prop} {ent.get("id", "")} rule={o.rule} {o.func} '
                         f'[{o.where}] {o.construct} -- {o.msg}')
        replay_paths = []
        for o in new:
            path = self._write_replay(o) if write else '-'
            replay_paths.append(path)
            lines.append(f'VIOLATION property={self.prop} replay={path}')
            lines.append(f'  rule={o.rule} function={o.func} at {o.where}')
            lines.append(f'  construct: {o.construct}')
            lines.append(f'  what: {o.msg}')
            if o.path:
                lines.append(f'  path: {o.path}')
        counts = {s: sum(1 for o in self.obls if o.status == s) for s in (OK, VIOLATION, UNDECIDED, TRIAGED)}
        per_rule = {}
        for o in self.obls:
            r = per_rule.setdefault(o.rule, {'text': self.rules[o.rule], 'instances': 0, 'ok': 0, 'violation': 0,
                                             'undecided': 0, 'triaged': 0})
            r['instances'] += 1
            r[o.status] += 1
        for rid, text in self.rules.items():
            per_rule.setdefault(rid, {'text': text, 'instances': 0, 'ok': 0, 'violation': 0, 'undecided': 0,
                                      'triaged': 0})
        distinct = len({(o.rule, o.func, o.construct) for o in self.obls})
        wall = time.time() - self.t0
        samples = [o.as_dict() for o in self.obls if o.status == OK][:6]
        samples += [o.as_dict() for o in self.obls if o.status == TRIAGED][:4]
        samples += [o.as_dict() for o in self.obls if o.status == UNDECIDED][:4]
        samples += [o.as_dict() for o, _ in known_hits][:8]
        if not samples:
            samples = [o.as_dict() for o in self.obls][:5]
        evidence = {
            'property_id': self.prop,
            'tier': self.tier,
            'seed': self.seed,
            'level': 'other',
            'coverage': {
                'explanation': (
                    'Static analysis of /repo/copulas (ast only, never imported or executed). Each rule is '
                    'evaluated on every construct it applies to in the current working tree; an obligation is one '
                    '(rule, function, construct) instance. ok = structurally discharged; undecided = the shape was '
                    'not recognised (no alarm, not counted as discharged); triaged = instance read by hand and frozen '
                    'with a reason; violation = the construct breaks the rule. ' + ' '.join(self.notes)),
                'obligations': len(self.obls),
                'discharged': counts[OK] + counts[TRIAGED],
                'undecided': counts[UNDECIDED],
                'violating': counts[VIOLATION],
                'known_findings_matched': len(known_hits),
                'new_violations': len(new),
                'evaluations': len(self.obls),
                'distinct_nontrivial': distinct,
                'rule': 'one case = one (rule, function, construct) instance found by walking the syntax trees / '
                        'call graph of the current tree; distinct = distinct triples; every instance is '
                        'non-trivial because rules only emit an obligation when the construct they govern exists',
                'samples': samples,
                'rules': per_rule,
                'instance_floors': [
                    {'rule': r, 'what': w, 'found': c, 'minimum': m} for r, w, c, m in self.floors],
                'checker_cmd': f'./check {self.prop} --tier {self.tier}',
                'trusted_base': sorted(self.trusted) or ['python ast module'],
                'program': prog_stats or {},
                'exhaustive': True,
                'known_findings': [dict(o.as_dict(), id=e.get('id')) for o, e in known_hits],
                'violations_detail': [o.as_dict() for o in new],
            },
            'assumptions': self.assumptions or ['the external-API contract table in copstat/contracts.py'],
            'wall_s': round(wall, 3),
            'violations': len(new),
        }
        evidence['coverage'].update(self.extra)
        if write:
            os.makedirs(os.path.join(VERIF, 'evidence'), exist_ok=True)
            with open(os.path.join(VERIF, 'evidence', f'{self.prop}.json'), 'w') as fh:
                json.dump(evidence, fh, indent=1, default=str)
        if not quiet:
            print(f'[{self.prop}] tier={self.tier} obligations={len(self.obls)} ok={counts[OK]} '
                  f'triaged={counts[TRIAGED]} undecided={counts[UNDECIDED]} violating={counts[VIOLATION]} '
                  f'(known={len(known_hits)} new={len(new)}) wall={wall:.2f}s')
            for rid in self.rules:
                r = per_rule[rid]
                print(f'  {rid:<10} inst={r["instances"]:<3} ok={r["ok"]:<3} tri={r["triaged"]:<2} '
                      f'und={r["undecided"]:<2} bad={r["violation"]:<2} {r["text"][:100]}')
            for o in self.obls:
                if o.status == UNDECIDED:
                    print(f'  UNDECIDED rule={o.rule} {o.func} [{o.where}] {o.construct} -- {o.msg}')
            for ln in lines:
                print(ln)
        self.evidence = evidence
        self.new = new
        self.known_hits = known_hits
        if replay_key is not None:
            return 1 if any(list(o.key(self.prop)) == list(replay_key) for o in viol) else 0
        return 1 if new else 0

    def _write_replay(self, o):
        os.makedirs(os.path.join(VERIF, 'replay'), exist_ok=True)
        digest = hashlib.sha1('|'.join(o.key(self.prop)).encode()).hexdigest()[:10]
        path = os.path.join(VERIF, 'replay', f'{self.prop}-{o.rule}-{digest}.json')
        with open(path, 'w') as fh:
            json.dump({'property': self.prop, 'key': list(o.key(self.prop)), 'violation': o.as_dict(),
                       'replay_cmd': f'./check {self.prop} --replay {path}'}, fh, indent=1)
        return path


def load_known():
    if not os.path.exists(KNOWN_FILE):
        return {}
    with open(KNOWN_FILE) as fh:
        data = json.load(fh)
    out = {}
    for ent in data.get('findings', []):
        k = (ent['property'], ent['rule'], ent['function'], norm_construct(ent['construct']))
        out[k] = ent
    return out
