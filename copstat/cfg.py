"""E3 - statement-level control-flow graph, dominators and a generic forward dataflow solver.

Node payloads are the ast nodes themselves: simple statements, and for compound statements
their *header* (If/While: the node stands for the test; For: iter + target binding; With: the
items; ExceptHandler: the handler entry).  Unknown statement kinds raise AnalysisError.
"""

import ast

from .model import AnalysisError


class Node:
    __slots__ = ('id', 'kind', 'ast', 'succ', 'pred', 'xsucc', 'pol')

    def __init__(self, id_, kind, astnode=None):
        self.id = id_
        self.kind = kind  # entry exit raise stmt test branch for with handler finally
        self.pol = None  # branch nodes: which way the test went
        self.ast = astnode
        self.succ = []  # normal successors
        self.xsucc = []  # exceptional successors
        self.pred = []

    def __repr__(self):
        return f'<N{self.id} {self.kind} L{getattr(self.ast, "lineno", "-")}>'


class CFG:
    def __init__(self, funcnode):
        self.func = funcnode
        self.nodes = []
        self.entry = self._new('entry')
        self.exit = self._new('exit')
        self.raise_exit = self._new('raise')
        self._loops = []  # (continue target, break collector list)
        self._trys = []  # stack of dicts(handlers=[nodes], final=node or None)
        ends = self._block(funcnode.body, [self.entry])
        for e in ends:
            self._edge(e, self.exit)
        self._of = {}
        for n in self.nodes:
            if n.ast is not None:
                self._of.setdefault(id(n.ast), n)

    # -------------------------------------------------------------- construction
    def _new(self, kind, astnode=None):
        n = Node(len(self.nodes), kind, astnode)
        self.nodes.append(n)
        return n

    def _edge(self, a, b, exceptional=False):
        if exceptional:
            if b not in a.xsucc:
                a.xsucc.append(b)
        else:
            if b not in a.succ:
                a.succ.append(b)
        if a not in b.pred:
            b.pred.append(a)

    def _exc_targets(self):
        """Where an exception raised at the current position goes."""
        if self._trys:
            t = self._trys[-1]
            tg = list(t['handlers'])
            if t['final'] is not None:
                tg.append(t['final'])
            elif not t['catch_all']:
                pass
            return tg, t
        return [self.raise_exit], None

    def _link_exc(self, node, explicit=False):
        tg, t = self._exc_targets()
        for x in tg:
            self._edge(node, x, exceptional=True)
        if t is not None and not t['catch_all'] and t['final'] is None and explicit:
            # explicit raise inside try whose handlers may not match: may escape outward
            outer = self._trys[:-1]
            if outer:
                for x in outer[-1]['handlers']:
                    self._edge(node, x, exceptional=True)
            else:
                self._edge(node, self.raise_exit, exceptional=True)

    def _branch(self, testnode, s):
        bt = self._new('branch', s)
        bt.pol = True
        bf = self._new('branch', s)
        bf.pol = False
        self._edge(testnode, bt)
        self._edge(testnode, bf)
        return bt, bf

    def _block(self, stmts, preds):
        for s in stmts:
            preds = self._stmt(s, preds)
        return preds

    def _stmt(self, s, preds):
        if isinstance(s, (ast.Expr, ast.Assign, ast.AugAssign, ast.AnnAssign, ast.Pass, ast.Import,
                          ast.ImportFrom, ast.Delete, ast.Global, ast.Nonlocal, ast.Assert,
                          ast.FunctionDef, ast.AsyncFunctionDef, ast.ClassDef)):
            n = self._new('stmt', s)
            for p in preds:
                self._edge(p, n)
            if self._trys or isinstance(s, ast.Assert) or _has_yield(s):
                self._link_exc(n)
            return [n]
        if isinstance(s, ast.Return):
            n = self._new('stmt', s)
            for p in preds:
                self._edge(p, n)
            if self._trys:
                self._link_exc(n)
            # return passes through enclosing finally blocks
            fin = [t['final'] for t in self._trys if t['final'] is not None]
            if fin:
                self._edge(n, fin[-1])
                self._ret_through_finally = True
            else:
                self._edge(n, self.exit)
            return []
        if isinstance(s, ast.Raise):
            n = self._new('stmt', s)
            for p in preds:
                self._edge(p, n)
            self._link_exc(n, explicit=True)
            return []
        if isinstance(s, ast.If):
            n = self._new('test', s)
            for p in preds:
                self._edge(p, n)
            if self._trys:
                self._link_exc(n)
            bt, bf = self._branch(n, s)
            a = self._block(s.body, [bt])
            b = self._block(s.orelse, [bf]) if s.orelse else [bf]
            return a + b
        if isinstance(s, (ast.For, ast.AsyncFor)):
            n = self._new('for', s)
            for p in preds:
                self._edge(p, n)
            if self._trys:
                self._link_exc(n)
            brk = []
            self._loops.append((n, brk))
            body_end = self._block(s.body, [n])
            self._loops.pop()
            for e in body_end:
                self._edge(e, n)
            out = self._block(s.orelse, [n]) if s.orelse else [n]
            return out + brk
        if isinstance(s, ast.While):
            n = self._new('test', s)
            for p in preds:
                self._edge(p, n)
            if self._trys:
                self._link_exc(n)
            brk = []
            bt, bf = self._branch(n, s)
            self._loops.append((n, brk))
            body_end = self._block(s.body, [bt])
            self._loops.pop()
            for e in body_end:
                self._edge(e, n)
            infinite = isinstance(s.test, ast.Constant) and bool(s.test.value)
            out = [] if infinite else (self._block(s.orelse, [bf]) if s.orelse else [bf])
            return out + brk
        if isinstance(s, ast.Break):
            n = self._new('stmt', s)
            for p in preds:
                self._edge(p, n)
            self._loops[-1][1].append(n)
            return []
        if isinstance(s, ast.Continue):
            n = self._new('stmt', s)
            for p in preds:
                self._edge(p, n)
            self._edge(n, self._loops[-1][0])
            return []
        if isinstance(s, (ast.With, ast.AsyncWith)):
            n = self._new('with', s)
            for p in preds:
                self._edge(p, n)
            if self._trys:
                self._link_exc(n)
            return self._block(s.body, [n])
        if isinstance(s, ast.Try):
            final = self._new('finally', s) if s.finalbody else None
            handlers = [self._new('handler', h) for h in s.handlers]
            catch_all = any(h.type is None or (isinstance(h.type, ast.Name) and h.type.id in (
                'Exception', 'BaseException')) for h in s.handlers)
            self._trys.append({'handlers': handlers, 'final': final, 'catch_all': catch_all})
            body_end = self._block(s.body, preds)
            self._trys.pop()
            # an uncaught exception in the body propagates outward
            if not catch_all and final is None:
                pass
            else_end = self._block(s.orelse, body_end) if s.orelse else body_end
            ends = list(else_end)
            # handlers run under the outer try context, but still pass through finally
            if final is not None:
                self._trys.append({'handlers': [], 'final': final, 'catch_all': False})
            for hn, h in zip(handlers, s.handlers):
                ends.extend(self._block(h.body, [hn]))
            if final is not None:
                self._trys.pop()
                for e in ends:
                    self._edge(e, final)
                self._ret_through_finally = False
                fin_end = self._block(s.finalbody, [final])
                # after finally: fall through, or continue the exceptional / return path
                tg, _t = self._exc_targets()
                for e in fin_end:
                    for x in tg:
                        self._edge(e, x, exceptional=True)
                    if any(isinstance(p.ast, ast.Return) for p in final.pred):
                        outer_fin = [t['final'] for t in self._trys if t['final'] is not None]
                        self._edge(e, outer_fin[-1] if outer_fin else self.exit)
                return fin_end
            return ends
        if isinstance(s, ast.Match):  # pragma: no cover - not used by the repo
            raise AnalysisError('match statement is not modelled by the CFG')
        raise AnalysisError(f'unknown statement kind {type(s).__name__} at line {s.lineno}')

    # ------------------------------------------------------------------ queries
    def node_of(self, astnode):
        return self._of.get(id(astnode))

    def node_containing(self, astnode):
        """CFG node whose payload contains the given (sub)expression."""
        n = astnode
        while n is not None:
            if id(n) in self._of:
                node = self._of[id(n)]
                # compound headers only contain their header expressions
                return node
            n = getattr(n, '_parent', None)
        return None

    def successors(self, n, exceptional=True):
        return n.succ + (n.xsucc if exceptional else [])

    def reachable(self, exceptional=True):
        seen = set()
        todo = [self.entry]
        while todo:
            n = todo.pop()
            if n.id in seen:
                continue
            seen.add(n.id)
            todo.extend(self.successors(n, exceptional))
        return seen

    def dominators(self, exceptional=True):
        reach = self.reachable(exceptional)
        nodes = [n for n in self.nodes if n.id in reach]
        allset = {n.id for n in nodes}
        dom = {n.id: set(allset) for n in nodes}
        dom[self.entry.id] = {self.entry.id}
        preds = {n.id: [p for p in n.pred if p.id in reach and (
            exceptional or n in p.succ)] for n in nodes}
        changed = True
        while changed:
            changed = False
            for n in nodes:
                if n is self.entry:
                    continue
                ps = preds[n.id]
                new = set.intersection(*(dom[p.id] for p in ps)) if ps else set()
                new = new | {n.id}
                if new != dom[n.id]:
                    dom[n.id] = new
                    changed = True
        return dom

    def postdominators(self, exits=None, exceptional=False):
        """Post-dominators with respect to the given exit nodes (default: normal exit)."""
        exits = exits or [self.exit]
        exit_ids = {e.id for e in exits}
        # nodes that can reach an exit
        rev = {n.id: [] for n in self.nodes}
        for n in self.nodes:
            for s in self.successors(n, exceptional):
                rev[s.id].append(n.id)
        can = set()
        todo = list(exit_ids)
        while todo:
            i = todo.pop()
            if i in can:
                continue
            can.add(i)
            todo.extend(rev[i])
        pd = {i: set(can) for i in can}
        for e in exit_ids:
            pd[e] = {e}
        changed = True
        while changed:
            changed = False
            for i in can:
                if i in exit_ids:
                    continue
                ss = [s.id for s in self.successors(self.nodes[i], exceptional) if s.id in can]
                new = set.intersection(*(pd[s] for s in ss)) if ss else set()
                new = new | {i}
                if new != pd[i]:
                    pd[i] = new
                    changed = True
        return pd


def forward(cfg, init, transfer, join, exceptional=True, bottom=None, max_iter=10000):
    """Generic forward dataflow.  transfer(node, state_in) -> state_out (normal edge) or
    (state_normal, state_exceptional).  Returns {node id: state_in}."""
    state_in = {cfg.entry.id: init}
    work = [cfg.entry]
    it = 0
    while work:
        it += 1
        if it > max_iter:  # pragma: no cover
            raise AnalysisError('dataflow did not converge')
        n = work.pop(0)
        s_in = state_in.get(n.id, bottom)
        out = transfer(n, s_in)
        if isinstance(out, tuple) and len(out) == 2 and out and isinstance(out, _Pair):
            s_norm, s_exc = out
        else:
            s_norm, s_exc = out, s_in
        for succs, st in ((n.succ, s_norm), (n.xsucc if exceptional else [], s_exc)):
            for s in succs:
                if s.id not in state_in:
                    state_in[s.id] = st
                    work.append(s)
                else:
                    merged = join(state_in[s.id], st)
                    if merged != state_in[s.id]:
                        state_in[s.id] = merged
                        if s not in work:
                            work.append(s)
    return state_in


def _has_yield(stmt):
    if isinstance(stmt, (ast.FunctionDef, ast.AsyncFunctionDef, ast.ClassDef)):
        return False
    return any(isinstance(n, (ast.Yield, ast.YieldFrom, ast.Await)) for n in ast.walk(stmt))


class _Pair(tuple):
    pass


def pair(normal, exceptional):
    return _Pair((normal, exceptional))


def header_exprs(node):
    """Expressions evaluated *at* a CFG node (not the bodies of compound statements)."""
    a = node.ast
    if a is None:
        return []
    if node.kind == 'test':
        return [a.test]
    if node.kind == 'for':
        return [a.iter, a.target]
    if node.kind == 'with':
        out = []
        for it in a.items:
            out.append(it.context_expr)
            if it.optional_vars is not None:
                out.append(it.optional_vars)
        return out
    if node.kind == 'handler':
        return [a.type] if a.type is not None else []
    if node.kind in ('finally', 'branch'):
        return []
    if isinstance(a, (ast.FunctionDef, ast.AsyncFunctionDef, ast.ClassDef)):
        return list(a.decorator_list)
    return [a]
