"""Propositional path conditions of structured code and truth-table reasoning over them.

A formula is True / False / ('atom', key) / ('not', f) / ('and', f, g, ...) / ('or', f, g, ...).
Atoms are canonicalised comparisons (`a != b` is `not eq(a, b)`, `a > b` is `lt(b, a)`, `x is not None` is
`not isnone(x)`, `len(x) == 0` is `not truth(len(x))`), with single-assignment boolean temporaries inlined.  Reach
conditions of a statement are computed over if / early return / continue / raise structure; a call of a project
function contributes the callee's normal-return condition (so guards extracted into a helper are seen).
Equivalence and implication are decided by enumerating the truth table (formulas here have at most ~10 atoms).
"""

import ast
import itertools

from .idioms import single_def
from .model import call_name, walk_no_nested

MAX_ATOMS = 14


def f_not(f):
    if f is True:
        return False
    if f is False:
        return True
    if isinstance(f, tuple) and f[0] == 'not':
        return f[1]
    return ('not', f)


def f_and(*fs):
    out = []
    for f in fs:
        if f is False:
            return False
        if f is True:
            continue
        if isinstance(f, tuple) and f[0] == 'and':
            out.extend(f[1:])
        else:
            out.append(f)
    if not out:
        return True
    return out[0] if len(out) == 1 else ('and',) + tuple(out)


def f_or(*fs):
    out = []
    for f in fs:
        if f is True:
            return True
        if f is False:
            continue
        if isinstance(f, tuple) and f[0] == 'or':
            out.extend(f[1:])
        else:
            out.append(f)
    if not out:
        return False
    return out[0] if len(out) == 1 else ('or',) + tuple(out)


def atoms_of(f, acc=None):
    acc = acc if acc is not None else {}
    if isinstance(f, tuple):
        if f[0] == 'atom':
            acc.setdefault(f[1], f)
        else:
            for g in f[1:]:
                atoms_of(g, acc)
    return acc


def evaluate(f, env):
    if f is True or f is False:
        return f
    if f[0] == 'atom':
        return env[f[1]]
    if f[0] == 'not':
        return not evaluate(f[1], env)
    if f[0] == 'and':
        return all(evaluate(g, env) for g in f[1:])
    return any(evaluate(g, env) for g in f[1:])


def assignments(keys):
    keys = sorted(keys)
    for vals in itertools.product((False, True), repeat=len(keys)):
        yield dict(zip(keys, vals))


def satisfiable(f, extra_keys=()):
    keys = set(atoms_of(f)) | set(extra_keys)
    if len(keys) > MAX_ATOMS:
        return None
    return any(evaluate(f, env) for env in assignments(keys))


def implies(f, g):
    """f => g for every assignment (None if too many atoms)."""
    r = satisfiable(f_and(f, f_not(g)))
    return None if r is None else not r


def equivalent(f, g):
    a, b = implies(f, g), implies(g, f)
    if a is None or b is None:
        return None
    return a and b


def substitute(f, mapping):
    """Replace atoms by constants: mapping key -> bool."""
    if f is True or f is False:
        return f
    if f[0] == 'atom':
        return mapping.get(f[1], f)
    if f[0] == 'not':
        return f_not(substitute(f[1], mapping))
    parts = [substitute(g, mapping) for g in f[1:]]
    return f_and(*parts) if f[0] == 'and' else f_or(*parts)


def show(f):
    if f is True:
        return 'true'
    if f is False:
        return 'false'
    if f[0] == 'atom':
        return f[1]
    if f[0] == 'not':
        return f'not ({show(f[1])})'
    return '(' + (' and ' if f[0] == 'and' else ' or ').join(show(g) for g in f[1:]) + ')'


# ------------------------------------------------------------------------- atoms
class Conds:
    """Builds formulas for one function; `rename` maps local names to canonical ones (e.g. callee parameter ->
    caller argument text) so that atoms of a helper and of its caller can be compared."""

    def __init__(self, prog, fn, rename=None, depth=0):
        self.prog = prog
        self.fn = fn
        self.rename = rename or {}
        self.depth = depth
        self.nodes = {}  # atom key -> a representative ast node

    def text(self, e):
        e = self._inline(e)
        src = ast.unparse(e)
        if self.rename:
            class R(ast.NodeTransformer):
                def visit_Name(s2, n):
                    if n.id in self.rename:
                        return ast.copy_location(ast.parse(self.rename[n.id], mode='eval').body, n)
                    return n
            import copy
            src = ast.unparse(R().visit(copy.deepcopy(e)))
        src = ' '.join(src.split())
        # the same data seen through a conversion is the same data for every test made on it (emptiness, dtype, NaN)
        import re
        src = re.sub(r'\b([A-Za-z_][A-Za-z_0-9]*)\.(to_numpy\(\)|values)(?![A-Za-z_0-9(])', r'\1', src)
        src = re.sub(r'\bnp\.(asarray|asanyarray)\(([A-Za-z_][A-Za-z_0-9]*)\)', r'\2', src)
        return src

    def _inline(self, e, depth=0):
        if isinstance(e, ast.Name) and depth < 4:
            d = single_def(self.fn.node, e.id)
            if isinstance(d, ast.AST) and not isinstance(d, (ast.Lambda,)) and e.id not in self.fn.params:
                return self._inline(d, depth + 1)
        return e

    def atom(self, key, node):
        self.nodes.setdefault(key, node)
        return ('atom', key)

    def formula(self, e):
        e0 = e
        e = self._inline(e)
        if isinstance(e, ast.BoolOp):
            parts = [self.formula(v) for v in e.values]
            return f_and(*parts) if isinstance(e.op, ast.And) else f_or(*parts)
        if isinstance(e, ast.UnaryOp) and isinstance(e.op, ast.Not):
            return f_not(self.formula(e.operand))
        if isinstance(e, ast.Constant) and isinstance(e.value, bool):
            return e.value
        if isinstance(e, ast.Compare):
            parts = []
            left = e.left
            for op, right in zip(e.ops, e.comparators):
                parts.append(self._cmp(left, op, right, e))
                left = right
            return f_and(*parts)
        if isinstance(e, ast.Call) and call_name(e) in ('all', 'any') and isinstance(e.func, ast.Attribute) and not e.args:
            inner = self._inline(e.func.value)
            # (<elementwise test>).all() / .any().any(): keep the reduction in the atom, normalise the inner test
            return self.atom(f'{call_name(e)}[{self.text(inner)}]', e0)
        if isinstance(e, ast.Call) and call_name(e) == 'isinstance' and len(e.args) == 2:
            return self.atom(f'isinstance[{self.text(e.args[0])},{self.text(e.args[1])}]', e0)
        if isinstance(e, ast.Call) and self.depth < 3 and not e.keywords and not any(isinstance(a, ast.Starred) for a in e.args):
            f = self._predicate(e)
            if f is not None:
                return f
        return self.atom(f'truth[{self.text(e)}]', e0)

    def _predicate(self, call):
        """A call of a module-level project function that only tests and returns (no raise, no loop left after
        normalisation, no assignment): the disjunction of its return conditions, parameters renamed to the arguments."""
        g = self.prog.functions.get(self.prog.resolve(self.fn.module, call.func) or '')
        if g is None or g.cls is not None or g.outer is not None or g is self.fn or len(call.args) != len(g.params) or g.vararg or g.kwarg:
            return None
        for n in walk_no_nested(g.node):
            if isinstance(n, (ast.Raise, ast.Assert, ast.For, ast.While, ast.Try, ast.With, ast.Assign, ast.AugAssign, ast.Yield, ast.YieldFrom)):
                return None
        rename = {p: '(' + self.text(a) + ')' if not isinstance(self._inline(a), (ast.Name, ast.Attribute, ast.Constant)) else self.text(a)
                  for p, a in zip(g.params, call.args)}
        sub = Conds(self.prog, g, rename=rename, depth=self.depth + 1)
        _normal, _raises, rets = sub.exits()
        out = []
        for st, c in rets:
            if st.value is None:
                continue
            out.append(f_and(c, sub.formula(st.value)))
        self.nodes.update(sub.nodes)
        return f_or(*out) if out else False

    def _cmp(self, a, op, b, node):
        ta, tb = self.text(a), self.text(b)
        if isinstance(op, (ast.Is, ast.IsNot)) and isinstance(b, ast.Constant) and b.value is None:
            f = self.atom(f'isnone[{ta}]', node)
            return f if isinstance(op, ast.Is) else f_not(f)
        if isinstance(op, (ast.Eq, ast.NotEq)) and isinstance(a, (ast.Tuple, ast.List)) and isinstance(b, (ast.Tuple, ast.List)) and len(a.elts) == len(b.elts) \
                and a.elts and not any(isinstance(x, ast.Starred) for x in a.elts + b.elts):
            # (a1, a2) == (b1, b2)  <=>  a1 == b1 and a2 == b2
            f = f_and(*[self._cmp(x, ast.Eq(), y, node) for x, y in zip(a.elts, b.elts)])
            return f if isinstance(op, ast.Eq) else f_not(f)
        if isinstance(op, (ast.Eq, ast.NotEq, ast.Is, ast.IsNot)):
            # len(x) == 0  <=>  not truth(len(x))
            for x, y, tx in ((a, b, ta), (b, a, tb)):
                if isinstance(y, ast.Constant) and y.value == 0 and isinstance(x, ast.Call) and call_name(x) == 'len' \
                        and isinstance(op, (ast.Eq, ast.NotEq)):
                    f = self.atom(f'truth[{tx}]', node)
                    return f_not(f) if isinstance(op, ast.Eq) else f
            k = 'eq[' + '|'.join(sorted([ta, tb])) + ']'
            f = self.atom(k, node)
            return f if isinstance(op, (ast.Eq, ast.Is)) else f_not(f)
        if isinstance(op, (ast.In, ast.NotIn)):
            f = self.atom(f'in[{ta}|{tb}]', node)
            return f if isinstance(op, ast.In) else f_not(f)
        if isinstance(op, ast.Lt):
            return self.atom(f'lt[{ta}|{tb}]', node)
        if isinstance(op, ast.Gt):
            return self.atom(f'lt[{tb}|{ta}]', node)
        if isinstance(op, ast.GtE):
            return f_not(self.atom(f'lt[{ta}|{tb}]', node))
        if isinstance(op, ast.LtE):
            return f_not(self.atom(f'lt[{tb}|{ta}]', node))
        return self.atom(f'cmp[{ast.unparse(node)}]', node)

    # ------------------------------------------------------------ reach conditions
    def exits(self, stmts=None, callee_hook=None):
        """(normal-exit formula, [(raise stmt, formula)], [(return stmt, formula)]) of a statement list / the function."""
        self._raises, self._returns = [], []
        self._hook = callee_hook
        after = self._walk(self.fn.body() if stmts is None else stmts, True, None)
        normal = f_or(after, *[c for _s, c in self._returns])
        return normal, list(self._raises), list(self._returns)

    def reach(self, target, stmts=None, callee_hook=None):
        """Formula under which `target` (a statement, or an expression inside one) is reached."""
        self._raises, self._returns = [], []
        self._hook = callee_hook
        self._target = target
        self._found = None
        self._walk(self.fn.body() if stmts is None else stmts, True, target)
        return self._found

    def _contains(self, stmt, target):
        return any(n is target for n in ast.walk(stmt))

    def _walk(self, stmts, cond, target):
        """Returns the fall-through condition after the statement list."""
        for s in stmts:
            if cond is False:
                break
            if target is not None and self._found is None and not isinstance(s, (ast.If, ast.For, ast.While, ast.Try, ast.With)) \
                    and self._contains(s, target):
                self._found = cond
            if isinstance(s, ast.Return):
                self._returns.append((s, cond))
                return False
            if isinstance(s, ast.Raise):
                self._raises.append((s, cond))
                return False
            if isinstance(s, (ast.Continue, ast.Break)):
                return False
            if isinstance(s, ast.Assert):
                t = self.formula(s.test)
                self._raises.append((s, f_and(cond, f_not(t))))
                cond = f_and(cond, t)
                continue
            if isinstance(s, ast.If):
                if target is not None and self._found is None and self._contains(s.test, target):
                    self._found = cond
                t = self.formula(s.test)
                a = self._walk(s.body, f_and(cond, t), target)
                b = self._walk(s.orelse, f_and(cond, f_not(t)), target)
                cond = f_or(a, b)
                continue
            if isinstance(s, (ast.For, ast.While)):
                if target is not None and self._found is None and any(n is target for n in ast.walk(s.iter if isinstance(s, ast.For) else s.test)):
                    self._found = cond
                self._walk(s.body, cond, target)
                self._walk(s.orelse, cond, target)
                continue
            if isinstance(s, ast.With):
                cond = self._walk(s.body, cond, target)
                continue
            if isinstance(s, ast.Try):
                a = self._walk(s.body, cond, target)
                hs = [self._walk(h.body, f_and(cond, self.atom(f'exc[{s.lineno}]', s)), target) for h in s.handlers]
                cond = f_or(a, *hs)
                cond = self._walk(s.finalbody, cond, target) if s.finalbody else cond
                continue
            # a call of a project function can raise: conjoin its normal-return condition
            if self._hook is not None:
                for c in [n for n in walk_no_nested(s) if isinstance(n, ast.Call)]:
                    extra = self._hook(self, c)
                    if extra is not None:
                        normal, raises = extra
                        for rs, rc in raises:
                            self._raises.append((rs, f_and(cond, rc)))
                        cond = f_and(cond, normal)
        return cond


def callee_exits(ctx, conds, call, depth=0):
    """Hook: (normal-return formula, raises) of the project function called at `call`, with the callee's parameters
    renamed to the caller's argument expressions; None when the callee is not a resolved project function."""
    if depth > 2:
        return None
    prog = ctx.prog
    fn = conds.fn
    tg = [t for t in ctx.cg.targets(fn, call) if t.kind == 'proj' and not t.how.startswith('decorator') and t.how != 'by method name']
    if len(tg) != 1:
        return None
    g = tg[0].fn
    if g is fn or not any(isinstance(n, (ast.Raise, ast.Assert)) for n in walk_no_nested(g.node)):
        return None
    from .effects import AliasAnalysis
    b = ctx.memo.get('binder_obj')
    if b is None:
        b = AliasAnalysis.__new__(AliasAnalysis)
        b.prog = prog
        ctx.memo['binder_obj'] = b
    binding = b.bind(fn, call, g)
    rename = {}
    for p, args in binding.items():
        if len(args) == 1:
            rename[p] = conds.text(args[0])
    sub = Conds(prog, g, rename=rename, depth=depth + 1)
    normal, raises, _rets = sub.exits(callee_hook=lambda c2, call2: callee_exits(ctx, c2, call2, depth + 1))
    conds.nodes.update(sub.nodes)
    return normal, raises
