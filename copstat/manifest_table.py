"""Per-property claim texts for MANIFEST.json (tools/gen_manifest.py)."""

NOTE = ('Trusted base: CPython ast; the external-API contract table copstat/contracts.py (aliasing/copying, in-place '
        'mutators, RNG consumers, SciPy parameter names, tuple layouts); triage tables in the rule module (each entry '
        'one named construct with its reason). Unrecognised shapes are reported UNDECIDED and never alarm.')

CLAIMS = {
    'C15': {
        'text': 'Decides the structure that makes seeding work, for all paths and all sampler classes: the context manager '
                'saves before it installs, restores on every normal and exceptional exit, captures the advanced state before '
                'restoring and hands it to the model setter (CFG all-exits / must-pass-through); the decorator scopes the '
                'wrapped call with the model\'s own state and setter; every RNG-consuming call site reachable from any '
                'sampler or dataset generator is scoped (effect summary over the call graph, including "a callee\'s '
                '@random_state uses the callee\'s seed"); only validated values are stored in random_state; dataset '
                'generators are scoped by their own seed, return exactly `size` rows (length provenance) and are not memoised. Equality '
                'of two concrete streams is implied by this structure plus NumPy determinism and is not computed.',
        'note': NOTE,
        'technique': 'CFG all-exits + RNG effect summaries over the resolved call graph + length-kind abstract interpretation',
    },
    'C19': {
        'text': 'Decides, for every model class and every path: check_fit() dominates the first read of fitted state in all '
                '60 query-method definitions (greatest-fixpoint guard analysis with virtual dispatch); Multivariate.fit(X) '
                'overrides are validated by three dominating ValueError guards; no attribute is written on only some '
                'paths of fit (must/may write sets, branch-correlated with helper return values), no constructor '
                'option is overwritten, accumulators are reset; every np.empty buffer is covered before use; no fit '
                'consumes the global RNG; get_instance returns fresh objects and every configurable __init__ records '
                'its arguments; no query method memoises a value derived from fitted state that fit does not reset '
                '(lru_cache / cached_property on such a method, lazily filled attributes); every check_fit raises NotFittedError '
                'exactly in the state __init__ leaves; no module-level model instance is fitted by library code. Three genuine defects are '
                'recorded as known findings (F7, F10a, F10b). Numeric equality of refitted models is not computed.',
        'note': NOTE,
        'technique': 'must-dataflow on per-function CFGs, attribute effect summaries (read/write closures per concrete class), '
                     'np.empty coverage idiom, RNG effect closure',
    },
    'C20': {
        'text': 'Decides parameter immutability for every parameter of all public callables by a flow-sensitive may-alias '
                'analysis (parameter object and its direct views, copies kill aliases, callee mutation and return-alias '
                'summaries to a fixpoint, self.attr <- parameter heap edges, containers reached through an attribute of a parameter, '
                'cross-method escapes in the thorough tier) '
                'and the labelling structure of the four scatter/compare helpers (provenance of each frame, label, '
                'single concatenation, axis columns). Nested containers inside a caller\'s dict/list and what plotly '
                'renders are out of reach.',
        'note': NOTE,
        'technique': 'flow-sensitive alias/in-place-write dataflow with interprocedural summaries; provenance abstract interpretation',
    },
}

CLAIMS['C14'] = {
    'text': 'Decides writer/reader agreement for all to_dict/from_dict pairs (Bivariate, GaussianMultivariate, VineCopula, '
            'Tree, Edge explicit key tables; Univariate/ScipyModel/GaussianKDE params pass-through): every written key is '
            'read, every read key written, key k written from self.A is restored into A, writer and reader transforms are '
            'inverse, recorded sequences are restored in recorded order, every attribute the query/serialisation closure reads '
            'is restored (the fitted flag included), every constructor option that '
            'shapes the rebuilt model is serialised, the recorded type is the class to rebuild and enum factories are '
            'exhaustive, save/load use inverse formats, serialisation edits neither the model nor the caller\'s dict, no '
            'unpicklable callable is stored. Two genuine defects are recorded (F3a, F3b: KDE bw_method/weights not '
            'serialised). Bitwise equality of outputs and JSON-encodability of NumPy scalars are not decided.',
    'note': NOTE,
    'technique': 'reader/writer key-table extraction and sibling agreement; attribute effect closures; alias analysis',
}

CLAIMS['C01'] = {
    'text': 'PARTIAL: decides for all paths of GaussianMultivariate.sample that every output column has exactly num_rows entries '
            '(length provenance through the helper that draws), that the output dict is assigned for every training column in '
            'training order on every branch (definite assignment over zip(self.columns, self.univariates), co-appended in fit), '
            'that each marginal quantile receives norm.cdf of the normal draw of the same column and that the fit-side scores '
            'are norm.ppf of clipped CDF values (space-kind typing), and that the unconditional draw uses the fitted correlation '
            'with zero mean; no function of the fit closure re-binds its table to a subset of its rows. That sampled columns follow the fitted marginals / rank dependence is a law of random output and '
            'is not decided.',
    'note': NOTE,
    'technique': 'kind systems by abstract interpretation (length, space), definite-assignment and co-append idioms',
}
CLAIMS['C02'] = {
    'text': 'PARTIAL: decides, path by path, that the returned matrix is corr() of the normal scores followed by NaN->0, that the '
            'ill-conditioned path (direction checked, threshold folded numerically: at most 1e16) adds a positive ridge of order '
            '1e-7 times the identity (size folded numerically), that norm.ppf only '
            'receives probabilities clipped strictly inside (0,1), that the matrix is labelled with the training columns in '
            'the order of its data (axis-order provenance) and that fit assigns columns/univariates before the correlation of '
            'the same table. Symmetry, range, PSD and equality with Pearson are semantics of pandas.corr and not decided.',
    'note': NOTE,
    'technique': 'path-sensitive stage provenance, space-kind and axis-order abstract interpretation, dominators',
}
CLAIMS['C12'] = {
    'text': 'Decides the mechanism of conditional sampling for all inputs: conditioned columns are np.full(num_rows, given value); '
            'every positional pairing on the conditional path joins vectors and labels of provably equal order (axis-order '
            'provenance; this is the rule that exposed the fixed defect F2); the conditional mean and covariance have the '
            'Schur-complement normal form over blocks taken with the right labels (symbolic block algebra, solve() accepted); '
            'no array/Series-typed parameter is used as a truth value (F1); the caller\'s conditions are not written. The '
            'law of the unconditioned columns is not decided.',
    'note': NOTE,
    'technique': 'axis-order provenance + symbolic block algebra normal form + alias analysis',
}
CLAIMS['C13'] = {
    'text': 'PARTIAL: decides that density/CDF delegate to multivariate_normal.pdf/.cdf on kind-Z points with cov = fitted '
            'correlation and zero mean, that log_probability_density is the np.log composition, that query columns are '
            'aligned with the correlation for DataFrame/Series/array input (axis-order provenance, Series and array branches '
            'of the container normalisation), and that no batch reduction couples rows. Numeric equality/monotonicity are not decided.',
    'note': NOTE,
    'technique': 'space-kind and axis-order abstract interpretation; structural container-normalisation check',
}

CLAIMS['C05'] = {
    'text': 'Decides every mechanism clause for all inputs: select_univariate is an arg-min over element 0 of kstest(X, instance.cdf) '
            'of the instance created and fitted on the same X in that iteration (initial +inf, guarded paired update, strict <), '
            'failures are enclosed and skipped (try catches Exception, handler continues), candidates are enumerated by recursing over '
            'subclasses with the ABC skip and both filters and every concrete family declares its tags, explicit candidate lists '
            'win, each column is fitted with the distribution looked up under its own name with the default for unnamed columns, '
            'the fallback is a GaussianUnivariate fitted on the same column and returned, and get_instance always constructs a new '
            'object from recorded arguments. Which family wins on given data is a runtime value.',
    'note': NOTE,
    'technique': 'idiom matchers (arg-extremum with polarity, exception envelope, index agreement) over the syntax tree and call graph',
}
CLAIMS['C10'] = {
    'text': 'PARTIAL: decides by dominators/post-dominators that every normal exit of Bivariate.fit passed split_matrix, the range '
            'check of both columns, tau = kendalltau(U,V)[0], the NaN refusal (all sub-paths raise ValueError) and '
            '_compute_theta in this order; that check_marginal refuses exactly min<0 or max>1; that theta is validated after '
            'assignment and check_theta refuses values outside the closed interval or in invalid_thetas; that the admissible sets '
            'equal the families\' mathematical domains; who may write theta/tau; and the rank-0 contract of the Frank '
            'calibration (the rule that exposed the fixed defect F17). D7: the closed-form calibrations of Clayton and Gumbel are '
            'evaluated on a partition of tau in (0.001, 0.999) in the interval domain: the family\'s Kendall tau of the returned theta '
            '(theta/(theta+2), 1-1/theta, from the property text) must meet the tau cell (refutation only) and theta is proved '
            'admissible; for negative tau cells the result must leave the admissible set or the method must raise; no admissible '
            'tau cell may end in a raise; returned constants are checked against invalid_thetas. The Frank calibration (Debye function, numeric solver) is not decided.',
    'note': NOTE,
    'technique': 'CFG dominance/post-dominance, guard normal forms, who-may-write, rank-kind abstract interpretation, '
                 'interval abstract interpretation',
}
CLAIMS['C11'] = {
    'text': 'PARTIAL: decides the typestate of every candidate (fitted Frank; fresh Clayton and Gumbel with tau := frank.tau then '
            '_compute_theta() before append, inside a ValueError envelope), that the tau <= 0 guard returns the fitted Frank '
            'before any candidate is built, that curves/distances/scores stay co-ordered with the candidate list and the '
            'arg-extremum indexes that list, the polarity chain distance -> rank(ascending=False) -> sum -> argmax, that no '
            'entropy source is reachable, and the deprecated forwarder. Recovery rates are statistical and not decided.',
    'note': NOTE,
    'technique': 'typestate over statement order, score/polarity abstract interpretation, RNG effect closure',
}

CLAIMS['C06'] = {
    'text': 'PARTIAL (three clauses): C(u,v) = C(v,u) for Clayton, Frank and Gumbel through invariance of the associative/commutative '
            'normal form of each closed form under swapping the arguments (straight-line symbolic evaluation, branches included); '
            'row independence of the vectorised methods (every reduction over the batch is enumerated; the two/three on the pinned '
            'tree are triaged with a reason, a new or changed one is a violation); check_fit() -> check_theta() dominates every '
            'read of theta. D4: the closed forms are evaluated in an interval domain with IEEE special values (0, 1, inf, NaN) over a '
            'partition of (theta, u, v) taken from the quantifier: C(0,v) = C(u,0) = 0, C(1,1) = 1, range [0,1] and NaN-freedom on '
            'the closed square are proved where the intervals allow, uniform margins / Frechet bounds / the independence value can '
            'only be refuted (a box whose result interval is disjoint from the admissible set, or NaN for every point), everything '
            'else is reported undecided. D5: an early-return shortcut of a CDF that is reachable after check_fit must be the '
            'independence value u*v (sibling cross-check through path conditions). 2-increasingness, generator identity and ordering '
            'in theta are not decided.',
    'note': NOTE,
    'technique': 'AC normal form of expressions (syntactic), reduction enumeration with triage table, guard dominance, '
                 'interval abstract interpretation with path alternatives',
}
CLAIMS['C07'] = {
    'text': 'PARTIAL: log_probability_density is np.log(probability_density(X)) for every family; the closed-form densities are '
            'symmetric in (u,v) (AC normal form); density and conditional CDF evaluate rows independently (triaged reductions). '
            'D4 (interval abstract interpretation over boxes of (theta, u, v)): density >= 0 and never NaN is proved for all three '
            'families; partial_derivative(0, v) = 0, (1, v) = 1, range [0,1] and the independence values (h = u, c = 1 at Gumbel '
            'theta = 1 and for Independence) are proved, refuted or undecided per family - this rule exposed the fixed defects F20, '
            'F21, F22. D5: reachable early-return shortcuts of the density / conditional CDF must be the independence values 1 / u. '
            'D6: the base-class finite-difference fallback is (C(copy of X with column 1 moved by a small non-zero step) - C(X)) / that step. '
            'h = dC/dv and c = d2C/du dv as identities, monotonicity and integrals are not decided.',
    'note': NOTE,
    'technique': 'AC normal form of expressions, reduction enumeration with triage table, interval abstract interpretation',
}
CLAIMS['C08'] = {
    'text': 'PARTIAL: the generic inverse solves one root problem per (y[i], v[i]) in order with nothing carried between iterations; '
            'the root function is partial_derivative_scalar(u, v_i) - y_i (argument binding checked), returns rank 0 (the rule that '
            'exposed fixed defect F16), the scalar wrapper stacks (u, v) in order, the bracket (folded numerically) spans [0,1] up to 1e-6 and '
            'has a sign change over the property\'s range (interval evaluation of partial_derivative at the lower end; one corner is the '
            'recorded defect F24); Frank/Gumbel/Independence dispatch correctly; D4: at the '
            'independence parameter percent_point returns its probability argument unchanged, Clayton\'s closed form is evaluated '
            'on intervals for its range and composed with its partial_derivative on 600 narrow boxes (h(ppf(y,v),v) must meet y: '
            'refutation only). Monotonicity in y and the root-finder tolerance are not decided.',
    'note': NOTE,
    'technique': 'loop idioms (element-wise, loop-carried state), closure binding, rank-kind abstract interpretation, '
                 'interval abstract interpretation',
}
CLAIMS['C09'] = {
    'text': 'PARTIAL: two separate U(0,1) draws of length n_samples, u = percent_point(c, v) with the conditioning draw second, '
            'result column_stack((u, v)) with that same v, n_samples rows, under @random_state; the first draw is unreachable with '
            '|tau| > 1 (path conditions, raising helpers followed). Uniform margins, Kendall tau and '
            'the joint law of the sample are statistical and not decided.',
    'note': NOTE,
    'technique': 'space-kind and length-kind abstract interpretation, argument-wiring check',
}

CLAIMS['C03'] = {
    'text': 'PARTIAL: per concrete family, each of pdf/logpdf/cdf/ppf/rvs delegates to the SciPy function of the same kind with the '
            'stored parameters, and a family whose MODEL_CLASS is not a distribution object overrides every delegating method (the '
            'rule that exposed fixed defect F15); aliases and the selecting wrapper forward to the same-named method; parameter keys '
            'of _fit/_fit_constant equal SciPy\'s names and unpacked fit results are stored under the right names; the degenerate-'
            'distribution state machine (exactly four replaced methods and their undo, right-continuous unit step, _is_constant / '
            '_extract_constant agree with _fit_constant, decided on abstract key/value sets of the parameter dicts); wiring of the KDE '
            'quantile search (root function, masks, brackets, +-inf); lane order of the vectorised methods (a permutation applied to the '
            'points is undone before values are written back: permutation words over argsort gathers) and complete coverage of a result '
            'buffer that is filled block by block. Monotonicity, limits, pdf = CDF\', inverse identities, the KDE CDF formula and the '
            'correctness of a hand-written replacement of a delegated method are not decided.',
    'note': NOTE,
    'technique': 'per-subclass delegation table with constant propagation through helpers; dict-key abstract evaluation; lane-order kind '
                 '(permutation words); block-coverage idioms; mask/closure wiring checks',
}
CLAIMS['C04'] = {
    'text': 'PARTIAL: location/scale equivariance of every parametric _fit by dimension typing (loc is a point of the data axis, scale a '
            'length, shapes and standardised truncation bounds dimensionless; also SciPy fit keywords, optimiser start values and '
            'bounds), closed-form estimators (mean / population std; min / range), user-supplied truncation bounds honoured, KDE '
            'options plumbed into every kernel estimate and the optional resampling. One genuine defect is recorded (F14: the scale '
            'bound of TruncatedGaussian is a squared length). Closeness to the generating/empirical CDF is statistical, not decided.',
    'note': NOTE,
    'technique': 'affine dimension-kind abstract interpretation (type-level encoding of equivariance); estimator idioms',
}
CLAIMS['C18'] = {
    'text': 'PARTIAL: the bracket precondition mentions f at both ends with the right polarity before the loop (assert or raise); '
            'bisect moves an end only to the midpoint under the matching sign mask with the same mask on both sides and returns the '
            'midpoint; chandrupatla clips every evaluated point into the bracket and its tracked points only receive bracket points; '
            'reductions over the lane axis occur only in assertions and loop-exit tests; the scalar and vector interpolation formulas '
            'have the same AC normal form; bisect\'s default tolerance and exit test; every array that receives points by lane stores '
            'is float whatever the caller passed; the history update of chandrupatla keeps a sign change between the two retained ends '
            '(evaluated over the 21 sign cells of f at the ends and at the new point). Convergence and accuracy are numeric, not decided.',
    'note': NOTE,
    'technique': 'mask-agreement and containment idioms, lane-reduction enumeration, AC normal form of sibling formulas',
}

CLAIMS['C16'] = {
    'text': 'PARTIAL: number of trees (one first tree plus one per k in range(1, min(n_var-1, truncated)), tree k on n_var-k nodes from '
            'tree k-1) and number of edges (n_nodes-1 per builder, by loop cardinality; one dead branch triaged) ; edge index = '
            'position; the child-edge set algebra (A & B, sorted(A ^ B), parents); proximity (|A|B| = level+1, consecutive edges, '
            'anchor); star/path shape by construction and no stale candidate carried through the greedy path loop; polarity of '
            'the greedy choices and Kendall tau of the training table as their input; every edge carries one select_copula result. The '
            'variable sets are evaluated in a symbolic set domain (atoms L, R, *D of each parent; helpers with *args followed). '
            'Spanning-tree property for every ordering of tau values and "no pair conditioned twice" depend on runtime values, not decided.',
    'note': NOTE,
    'technique': 'loop-cardinality and loop-carried-state idioms, AC normal form of bounds, symbolic set domain for the variable sets',
}
CLAIMS['C17'] = {
    'text': 'PARTIAL: h-function and tau computation read an edge\'s inputs through the same accessor and copulas are selected on those '
            'inputs; both h-arrays are corrected away from 0/1 and stored as [left|right, right|left], read back with the matching '
            'index; a rebuilt pair copula takes family and theta from the same edge; likelihood recursion (log of pair density, tree '
            'sum, next matrix cells and their rank 0 - the rule that exposed fixed defect F19 - matrix handed from tree to tree); '
            'no entropy or uninitialised buffer in get_likelihood; sample() schema (rows, columns, clipped probabilities, rank-0 '
            'stores - F18); D6: parents[0] of an edge is the parent that owns its L node - the construction site orders the parents '
            'like the (sorted) conditioned pair and Edge.get_likelihood pairs L with parents[0] (the clause behind fixed defect F23); '
            'every path of Tree.fit that builds edges also attaches their h-functions; functions reached only from sample / get_likelihood / '
            'to_dict do not edit containers of the fitted trees in place. '
            'Equality with the pair-copula decomposition and the law of samples are not decided.',
    'note': NOTE,
    'technique': 'accessor/sibling agreement, ownership convention of parent edges, rank-kind and length-kind abstract interpretation, '
                 'RNG effect closure, np.empty coverage',
}

NOT_APPLICABLE = {}
