"""Self-validation corpus for C03."""
UB = 'univariate/base.py'
KD = 'univariate/gaussian_kde.py'
MUTANTS = [
    {'name': 'cdf-calls-pdf', 'rule': 'D1.delegate', 'file': UB, 'old': "        return self.MODEL_CLASS.cdf(X, **self._params)", 'new': "        return self.MODEL_CLASS.pdf(X, **self._params)"},
    {'name': 'ppf-without-params', 'rule': 'D1.delegate', 'file': UB, 'old': "        return self.MODEL_CLASS.ppf(U, **self._params)", 'new': "        return self.MODEL_CLASS.ppf(U)"},
    {'name': 'sample-size-one', 'rule': 'D1.delegate', 'file': UB, 'old': "        return self.MODEL_CLASS.rvs(size=n_samples, **self._params)", 'new': "        return self.MODEL_CLASS.rvs(size=1, **self._params)"},
    {'name': 'F15-returns', 'rule': 'D1.delegate', 'file': KD, 'old': "        self.check_fit()\n        return self._model.logpdf(X)\n\n    @random_state", 'new': "        return super().log_probability_density(X)\n\n    @random_state"},
    {'name': 'kde-pdf-uses-logpdf', 'rule': 'D1.delegate', 'file': KD, 'old': "        return self._model.evaluate(X)", 'new': "        return self._model.logpdf(X)"},
    {'name': 'kde-sample-all-rows', 'rule': 'D1.delegate', 'file': KD, 'old': "        return self._model.resample(size=n_samples)[0]", 'new': "        return self._model.resample(size=n_samples)"},
    {'name': 'alias-cdf-to-pdf', 'rule': 'D1.alias', 'file': UB, 'old': "        return self.cumulative_distribution(X)\n\n    def percent_point(self, U):", 'new': "        return self.probability_density(X)\n\n    def percent_point(self, U):"},
    {'name': 'wrapper-ppf-to-cdf', 'rule': 'D1.alias', 'file': UB, 'old': "        return self._instance.percent_point(U)", 'new': "        return self._instance.cumulative_distribution(U)"},
    {'name': 'beta-loc-scale-swapped', 'rule': 'D2.keys', 'file': 'univariate/beta.py', 'old': "self._params = {'loc': loc, 'scale': scale, 'a': a, 'b': b}", 'new': "self._params = {'loc': scale, 'scale': loc, 'a': a, 'b': b}"},
    {'name': 'gamma-unpack-order', 'rule': 'D2.keys', 'file': 'univariate/gamma.py', 'old': "        a, loc, scale = gamma.fit(X)", 'new': "        loc, a, scale = gamma.fit(X)"},
    {'name': 'loglaplace-constant-missing-key', 'rule': 'D2.keys', 'file': 'univariate/log_laplace.py', 'old': "            'c': 2.0,\n            'loc': np.unique(X)[0],", 'new': "            'loc': np.unique(X)[0],"},
    {'name': 'student-wrong-key', 'rule': 'D2.keys', 'file': 'univariate/student_t.py', 'old': "self._params = {'df': dataframe, 'loc': loc, 'scale': scale}", 'new': "self._params = {'dof': dataframe, 'loc': loc, 'scale': scale}"},
    {'name': 'ppf-replaced-by-constant-cdf', 'rule': 'D3.degenerate', 'file': UB, 'old': "        self.percent_point = self._constant_percent_point", 'new': "        self.percent_point = self._constant_cumulative_distribution"},
    {'name': 'sample-not-replaced', 'rule': 'D3.degenerate', 'file': UB, 'old': "        self.sample = self._constant_sample\n", 'new': ""},
    {'name': 'step-left-continuous', 'rule': 'D3.degenerate', 'file': UB, 'old': "        result[np.nonzero(X < self._constant_value)] = 0", 'new': "        result[np.nonzero(X <= self._constant_value)] = 0"},
    {'name': 'gaussian-constant-scale-one', 'rule': 'D3.degenerate', 'file': 'univariate/gaussian.py', 'old': "self._params = {'loc': np.unique(X)[0], 'scale': 0}", 'new': "self._params = {'loc': np.unique(X)[0], 'scale': 1}"},
    {'name': 'truncated-constant-a-b-differ', 'rule': 'D3.degenerate', 'file': 'univariate/truncated_gaussian.py', 'old': "self._params = {'a': constant, 'b': constant, 'loc': constant, 'scale': 0.0}", 'new': "self._params = {'a': constant, 'b': constant + 1, 'loc': constant, 'scale': 0.0}"},
    {'name': 'extract-constant-from-scale', 'rule': 'D3.degenerate', 'file': 'univariate/beta.py', 'old': "    def _extract_constant(self):\n        return self._params['loc']", 'new': "    def _extract_constant(self):\n        return self._params['scale']"},
    {'name': 'kde-root-without-mask', 'rule': 'D4.quantile', 'file': KD, 'old': "            return self.cumulative_distribution(X) - U[is_valid]", 'new': "            return self.cumulative_distribution(X) - U"},
    {'name': 'kde-one-to-minus-inf', 'rule': 'D4.quantile', 'file': KD, 'old': "        X[is_one] = float('inf')\n        X[is_zero] = float('-inf')", 'new': "        X[is_one] = float('-inf')\n        X[is_zero] = float('inf')"},
    {'name': 'kde-valid-mask-or-dropped', 'rule': 'D4.quantile', 'file': KD, 'old': "        is_valid = ~(is_zero | is_one)", 'new': "        is_valid = ~is_zero"},
    {'name': 'kde-scatter-wrong-mask', 'rule': 'D4.quantile', 'file': KD, 'old': "                X[is_valid] = chandrupatla(_f, lower, upper)", 'new': "                X[~is_zero] = chandrupatla(_f, lower, upper)"},
    {'name': 'kde-bounds-inverted', 'rule': 'D4.quantile', 'file': KD, 'old': "        lower = np.min(X) - (5 * np.std(X))\n        upper = np.max(X) + (5 * np.std(X))", 'new': "        lower = np.min(X) + (5 * np.std(X))\n        upper = np.max(X) - (5 * np.std(X))"},
    {'name': 'unset-misses-ppf', 'rule': 'D3.degenerate', 'file': UB, 'old': "        self.__dict__.pop('percent_point', None)\n", 'new': ""},
]
REWRITES = [
    {'name': 'delegate-via-temp', 'file': UB, 'old': "        return self.MODEL_CLASS.cdf(X, **self._params)", 'new': "        result = self.MODEL_CLASS.cdf(X, **self._params)\n        return result"},
    {'name': 'gaussian-method-spelling', 'file': 'univariate/gaussian.py', 'old': "        self._params = {'loc': np.mean(X), 'scale': np.std(X)}", 'new': "        self._params = {'scale': X.std(), 'loc': X.mean()}"},
    {'name': 'beta-dict-order', 'file': 'univariate/beta.py', 'old': "self._params = {'loc': loc, 'scale': scale, 'a': a, 'b': b}", 'new': "self._params = {'a': a, 'b': b, 'loc': loc, 'scale': scale}"},
    {'name': 'gamma-rename-vars', 'file': 'univariate/gamma.py', 'old': "        a, loc, scale = gamma.fit(X)\n        self._params = {\n            'a': a,\n            'loc': loc,\n            'scale': scale,\n        }", 'new': "        shape, location, spread = gamma.fit(X)\n        self._params = {\n            'a': shape,\n            'loc': location,\n            'scale': spread,\n        }"},
]
