"""Self-validation corpus for C14."""
V = 'multivariate/vine.py'
T = 'multivariate/tree.py'
G = 'multivariate/gaussian.py'
B = 'bivariate/base.py'
UB = 'univariate/base.py'
MUTANTS = [
    {'name': 'vine-drops-truncated-key', 'rule': 'D1.keys', 'file': V, 'old': "            'truncated': self.truncated,\n", 'new': ""},
    {'name': 'vine-reads-unwritten-key', 'rule': 'D1.keys', 'file': V, 'old': "instance.depth = vine_dict['depth']", 'new': "instance.depth = vine_dict['vine_depth']"},
    {'name': 'vine-tau-mat-from-u-matrix', 'rule': 'D2.attr', 'file': V, 'old': "instance.tau_mat = np.array(vine_dict['tau_mat'])", 'new': "instance.tau_mat = np.array(vine_dict['u_matrix'])"},
    {'name': 'vine-tau-mat-as-list', 'rule': 'D3.transform', 'file': V, 'old': "instance.tau_mat = np.array(vine_dict['tau_mat'])", 'new': "instance.tau_mat = vine_dict['tau_mat']"},
    {'name': 'vine-unis-not-rebuilt', 'rule': 'D3.transform', 'file': V, 'old': "instance.unis = [GaussianKDE.from_dict(uni) for uni in vine_dict['unis']]", 'new': "instance.unis = vine_dict['unis']"},
    {'name': 'vine-ppfs-not-restored', 'rule': 'D4.complete', 'file': V, 'old': "            instance.ppfs = [uni.percent_point for uni in instance.unis]\n", 'new': ""},
    {'name': 'vine-n-var-swapped', 'rule': 'D', 'file': V, 'old': "instance.n_var = vine_dict['n_var']", 'new': "instance.n_var = vine_dict['n_sample']"},
    {'name': 'tree-ignores-previous', 'rule': 'D1.keys', 'file': T,
     'old': "            instance.previous_tree = cls._deserialize_previous_tree(tree_dict, previous)\n", 'new': "            instance.previous_tree = previous\n"},
    {'name': 'tree-edges-not-rebuilt', 'rule': 'D3.transform', 'file': T, 'old': "instance.edges = [Edge.from_dict(edge) for edge in tree_dict['edges']]", 'new': "instance.edges = tree_dict['edges']"},
    {'name': 'edge-drops-tau', 'rule': 'D1.keys', 'file': T, 'old': "regular_attributes = ['D', 'tau', 'likelihood', 'neighbors']", 'new': "regular_attributes = ['D', 'likelihood', 'neighbors']"},
    {'name': 'edge-U-as-list', 'rule': 'D3.transform', 'file': T, 'old': "instance.U = np.array(edge_dict['U'])", 'new': "instance.U = edge_dict['U']"},
    {'name': 'edge-LR-swapped', 'rule': 'D2.attr', 'file': T, 'old': "            edge_dict['L'],\n            edge_dict['R'],\n", 'new': "            edge_dict['R'],\n            edge_dict['L'],\n"},
    {'name': 'gaussian-correlation-plain-list', 'rule': 'D3.transform', 'file': G, 'old': "instance.correlation = pd.DataFrame(correlation, index=columns, columns=columns)", 'new': "instance.correlation = correlation"},
    {'name': 'gaussian-columns-not-restored', 'rule': 'D4.complete', 'file': G, 'old': "        instance.columns = columns\n", 'new': ""},
    {'name': 'bivariate-tau-dropped', 'rule': 'D1.keys', 'file': B, 'old': "return {'copula_type': self.copula_type.name, 'theta': self.theta, 'tau': self.tau}", 'new': "return {'copula_type': self.copula_type.name, 'theta': self.theta}"},
    {'name': 'bivariate-theta-tau-swapped', 'rule': 'D2.attr', 'file': B, 'old': "        instance.theta = copula_dict['theta']\n        instance.tau = copula_dict['tau']\n", 'new': "        instance.theta = copula_dict['tau']\n        instance.tau = copula_dict['theta']\n"},
    {'name': 'get-params-returns-live-dict', 'rule': 'D', 'file': UB, 'old': "        return self._params.copy()\n", 'new': "        return self._params\n"},
    {'name': 'set-params-keeps-callers-dict', 'rule': 'D7.noedit', 'file': UB, 'old': "        self._params = params.copy()\n        if self._is_constant():", 'new': "        self._params = params\n        if self._is_constant():"},
    {'name': 'from-dict-pops-callers-dict', 'rule': 'D7.noedit', 'file': UB, 'old': "        params = params.copy()\n        distribution = get_instance(params.pop('type'))", 'new': "        distribution = get_instance(params.pop('type'))"},
    {'name': 'wrapper-records-itself', 'rule': 'D5.dispatch', 'file': UB, 'old': "            params['type'] = get_qualified_name(self._instance)", 'new': "            params['type'] = get_qualified_name(self)"},
    {'name': 'gaussian-type-of-class-base', 'rule': 'D5.dispatch', 'file': G, 'old': "            'type': get_qualified_name(self),", 'new': "            'type': get_qualified_name(Multivariate),"},
    {'name': 'get-tree-wrong-class', 'rule': 'D5.dispatch', 'file': T, 'old': "    if tree_type == TreeTypes.REGULAR:\n        return RegularTree()\n    if tree_type == TreeTypes.DIRECT:\n        return DirectTree()", 'new': "    if tree_type == TreeTypes.REGULAR:\n        return DirectTree()\n    if tree_type == TreeTypes.DIRECT:\n        return RegularTree()"},
    {'name': 'get-tree-missing-member', 'rule': 'D5.dispatch', 'file': T, 'old': "    if tree_type == TreeTypes.DIRECT:\n        return DirectTree()\n", 'new': ""},
    {'name': 'bivariate-json-load-pickle-save', 'rule': 'D6.format', 'file': B, 'old': "        with open(filename, 'w') as f:\n            json.dump(content, f)", 'new': "        import pickle\n        with open(filename, 'wb') as f:\n            pickle.dump(content, f)"},
    {'name': 'lambda-stored-in-model', 'rule': 'D9.pickle', 'file': V, 'old': "        self.model = GaussianKDE\n", 'new': "        self.model = lambda: GaussianKDE()\n"},
    {'name': 'multivariate-dispatch-ignores-type', 'rule': 'D5.dispatch', 'file': 'multivariate/base.py', 'old': "        multivariate_class = get_instance(params['type'])\n        return multivariate_class.from_dict(params)", 'new': "        from copulas.multivariate.gaussian import GaussianMultivariate\n        return GaussianMultivariate.from_dict(params)"},
    {'name': 'gaussian-rebuilt-stays-unfitted', 'rule': 'D4.complete', 'file': G, 'old': "        instance.fitted = True\n\n        return instance", 'new': "        return instance"},
    {'name': 'vine-rebuilt-marked-unfitted', 'rule': 'D4.complete', 'file': V, 'old': "            instance.fitted = fitted\n", 'new': "            instance.fitted = False\n"},
    {'name': 'tree-edges-sorted-on-read', 'rule': 'D3.order', 'file': T, 'old': "instance.edges = [Edge.from_dict(edge) for edge in tree_dict['edges']]", 'new': "instance.edges = Edge.sort_edge([Edge.from_dict(edge) for edge in tree_dict['edges']])"},
    {'name': 'tree-edges-reversed-on-read', 'rule': 'D3.order', 'file': T, 'old': "instance.edges = [Edge.from_dict(edge) for edge in tree_dict['edges']]", 'new': "instance.edges = [Edge.from_dict(edge) for edge in reversed(tree_dict['edges'])]"},
    {'name': 'gaussian-columns-sorted-on-read', 'rule': 'D3.order', 'file': G, 'old': "        columns = copula_dict['columns']\n", 'new': "        columns = sorted(copula_dict['columns'])\n"},
    {'name': 'bivariate-save-replaces-infinite-theta', 'rule': 'D6.format', 'file': B, 'old': "        content = self.to_dict()\n        with open(filename, 'w') as f:", 'new': "        content = self.to_dict()\n        if content['theta'] == float('inf'):\n            content['theta'] = 1e308\n        with open(filename, 'w') as f:"},
    {'name': 'bivariate-load-drops-tau', 'rule': 'D6.format', 'file': B, 'old': "            copula_dict = json.load(f)\n", 'new': "            copula_dict = json.load(f)\n            copula_dict.pop('tau', None)\n"},
]
REWRITES = [
    {'name': 'vine-reorder-restores', 'file': V,
     'old': "            instance.n_sample = vine_dict['n_sample']\n            instance.n_var = vine_dict['n_var']\n", 'new': "            instance.n_var = vine_dict['n_var']\n            instance.n_sample = vine_dict['n_sample']\n"},
    {'name': 'bivariate-dict-via-local', 'file': B, 'old': "        return {'copula_type': self.copula_type.name, 'theta': self.theta, 'tau': self.tau}",
     'new': "        result = {'copula_type': self.copula_type.name, 'theta': self.theta}\n        result['tau'] = self.tau\n        return result"},
    {'name': 'tree-asarray', 'file': T, 'old': "instance.tau_matrix = np.array(tree_dict['tau_matrix'])", 'new': "instance.tau_matrix = np.asarray(tree_dict['tau_matrix'])"},
    {'name': 'gaussian-loop-to-comprehension', 'file': G,
     'old': "        for parameters in copula_dict['univariates']:\n            instance.univariates.append(Univariate.from_dict(parameters))\n",
     'new': "        instance.univariates = [Univariate.from_dict(parameters) for parameters in copula_dict['univariates']]\n"},
    {'name': 'get-params-dict-copy', 'file': UB, 'old': "        return self._params.copy()\n", 'new': "        return dict(self._params)\n"},
]
