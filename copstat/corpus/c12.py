"""Self-validation corpus for C12."""
G = 'multivariate/gaussian.py'
MUTANTS = [
    {'name': 'F2-returns', 'rule': 'D2.align', 'file': G, 'old': "normal_conditions = pd.Series(normal_conditions, index=condition_columns)", 'new': "normal_conditions = pd.Series(normal_conditions, index=conditions.index)"},
    {'name': 'F1-returns', 'rule': 'D4.container', 'file': G, 'old': "if conditions is not None and column_name in conditions:", 'new': "if conditions and column_name in conditions:"},
    {'name': 'conditioned-column-sampled', 'rule': 'D1.fixed', 'file': G, 'old': "                output[column_name] = np.full(num_rows, conditions[column_name])", 'new': "                output[column_name] = univariate.percent_point(np.full(num_rows, 0.5))"},
    {'name': 'schur-plus', 'rule': 'D3.schur', 'file': G, 'old': "sigma_bar = sigma11 - sigma12sigma22inv @ sigma21", 'new': "sigma_bar = sigma11 + sigma12sigma22inv @ sigma21"},
    {'name': 'schur-missing-inv', 'rule': 'D3.schur', 'file': G, 'old': "sigma12sigma22inv = sigma12 @ np.linalg.inv(sigma22)", 'new': "sigma12sigma22inv = sigma12 @ sigma22"},
    {'name': 'schur-wrong-block', 'rule': 'D3', 'file': G, 'old': "sigma_bar = sigma11 - sigma12sigma22inv @ sigma21", 'new': "sigma_bar = sigma11 - sigma12sigma22inv @ sigma12.T @ sigma22"},
    {'name': 'blocks-swapped', 'rule': 'D', 'file': G, 'old': "        sigma12 = self.correlation.loc[columns1, columns2].to_numpy()\n        sigma21 = self.correlation.loc[columns2, columns1].to_numpy()", 'new': "        sigma12 = self.correlation.loc[columns2, columns1].to_numpy()\n        sigma21 = self.correlation.loc[columns1, columns2].to_numpy()"},
    {'name': 'mean-ignores-conditions', 'rule': 'D3.schur', 'file': G, 'old': "mu_bar = mu1 + sigma12sigma22inv @ (conditions - mu2)", 'new': "mu_bar = mu1"},
    {'name': 'sigma22-from-all-columns', 'rule': 'D', 'file': G, 'old': "sigma22 = self.correlation.loc[columns2, columns2].to_numpy()", 'new': "sigma22 = self.correlation.loc[columns1, columns1].to_numpy()"},
    {'name': 'conditions-popped', 'rule': 'D5.nomutate', 'file': G, 'old': "            if conditions is not None and column_name in conditions:\n                # Use the values that were given as conditions in the original space.\n                output[column_name] = np.full(num_rows, conditions[column_name])", 'new': "            if conditions is not None and column_name in conditions:\n                # Use the values that were given as conditions in the original space.\n                output[column_name] = np.full(num_rows, conditions.pop(column_name))"},
    {'name': 'sample-columns-from-condition-order', 'rule': 'D', 'file': G, 'old': "        return mu_bar, sigma_bar, columns1", 'new': "        return mu_bar, sigma_bar, self.correlation.columns.difference(columns2)[::-1]"},
]
REWRITES = [
    {'name': 'solve-instead-of-inv', 'file': G, 'old': "        sigma12sigma22inv = sigma12 @ np.linalg.inv(sigma22)\n\n        mu_bar = mu1 + sigma12sigma22inv @ (conditions - mu2)\n        sigma_bar = sigma11 - sigma12sigma22inv @ sigma21",
     'new': "        mu_bar = mu1 + sigma12 @ np.linalg.solve(sigma22, conditions - mu2)\n        sigma_bar = sigma11 - sigma12 @ np.linalg.solve(sigma22, sigma21)"},
    {'name': 'inline-product', 'file': G, 'old': "        mu_bar = mu1 + sigma12sigma22inv @ (conditions - mu2)", 'new': "        mu_bar = sigma12sigma22inv @ conditions"},
    {'name': 'reorder-conditions-first', 'file': G, 'old': "            condition_columns = [column for column in self.columns if column in conditions.index]\n            normal_conditions = pd.Series(normal_conditions, index=condition_columns)",
     'new': "            order = [column for column in self.columns if column in conditions.index]\n            normal_conditions = pd.Series(normal_conditions, index=order)"},
]
