"""Self-validation corpus for C08."""
B = 'bivariate/base.py'
MUTANTS = [
    {'name': 'root-swapped-targets', 'rule': 'D2.root', 'file': B, 'old': "return np.ravel(self.partial_derivative_scalar(u, _v))[0] - _y", 'new': "return np.ravel(self.partial_derivative_scalar(u, _y))[0] - _v"},
    {'name': 'root-args-swapped', 'rule': 'D2.root', 'file': B, 'old': "return np.ravel(self.partial_derivative_scalar(u, _v))[0] - _y", 'new': "return np.ravel(self.partial_derivative_scalar(_v, u))[0] - _y"},
    {'name': 'bracket-too-wide', 'rule': 'D2.root', 'file': B, 'old': "minimum = brentq(f, EPSILON, 1.0)", 'new': "minimum = brentq(f, EPSILON, 2.0)"},
    {'name': 'bracket-negative', 'rule': 'D2.root', 'file': B, 'old': "minimum = brentq(f, EPSILON, 1.0)", 'new': "minimum = brentq(f, -1.0, 1.0)"},
    {'name': 'rank-regression', 'rule': 'D2.rank', 'file': B, 'old': "return np.ravel(self.partial_derivative_scalar(u, _v))[0] - _y", 'new': "return self.partial_derivative_scalar(u, _v) - _y"},
    {'name': 'zip-swapped', 'rule': 'D1.elementwise', 'file': B, 'old': "        for _y, _v in zip(y, V):", 'new': "        for _y, _v in zip(V, y):"},
    {'name': 'skip-duplicates', 'rule': 'D1.elementwise', 'file': B, 'old': "            result.append(minimum)\n", 'new': "            if minimum not in result:\n                result.append(minimum)\n"},
    {'name': 'warm-start-carried', 'rule': 'D1.elementwise', 'file': B, 'old': "            minimum = brentq(f, EPSILON, 1.0)\n", 'new': "            minimum = brentq(f, EPSILON, 1.0) if not result else 0.5 * (brentq(f, EPSILON, 1.0) + minimum * 0 + brentq(f, EPSILON, 1.0))\n"},
    {'name': 'gumbel-shortcut-returns-V', 'rule': 'D3.dispatch', 'file': 'bivariate/gumbel.py', 'old': "        if self.theta == 1:\n            return y\n", 'new': "        if self.theta == 1:\n            return V\n"},
    {'name': 'frank-super-swapped', 'rule': 'D3.dispatch', 'file': 'bivariate/frank.py', 'old': "            return super().percent_point(y, V)", 'new': "            return super().percent_point(V, y)"},
    {'name': 'independence-returns-V', 'rule': 'D3.dispatch', 'file': 'bivariate/independence.py', 'old': "        self.check_fit()\n        return y", 'new': "        self.check_fit()\n        return V"},
    {'name': 'clayton-inverse-exponent-sign', 'rule': 'D4.values', 'file': 'bivariate/clayton.py', 'old': "            return np.power((a + b - 1) / b, -1 / self.theta)", 'new': "            return np.power((a + b - 1) / b, 1 / self.theta)"},
    {'name': 'clayton-inverse-negated', 'rule': 'D4.values', 'file': 'bivariate/clayton.py', 'old': "            return np.power((a + b - 1) / b, -1 / self.theta)", 'new': "            return 1 - 2 * np.power((a + b - 1) / b, -1 / self.theta)"},
    {'name': 'gumbel-shortcut-returns-product', 'rule': 'D4.values', 'file': 'bivariate/gumbel.py', 'old': "        if self.theta == 1:\n            return y\n", 'new': "        if self.theta == 1:\n            return y * V\n"},
    {'name': 'clayton-inverse-wrong-inner-exponent', 'rule': 'D4.values', 'file': 'bivariate/clayton.py', 'old': "            a = np.power(y, self.theta / (-1 - self.theta))", 'new': "            a = np.power(y, self.theta / (1 + self.theta))"},
    {'name': 'clayton-inverse-b-uses-y', 'rule': 'D4.values', 'file': 'bivariate/clayton.py', 'old': "            b = np.power(V, self.theta)\n", 'new': "            b = np.power(y, self.theta)\n"},
    {'name': 'bracket-upper-half-only', 'rule': 'D2.root', 'file': 'bivariate/base.py', 'old': "brentq(f, EPSILON, 1.0)", 'new': "brentq(f, 0.5, 1.0)"},
    {'name': 'bracket-stops-short-of-one', 'rule': 'D2.root', 'file': 'bivariate/base.py', 'old': "brentq(f, EPSILON, 1.0)", 'new': "brentq(f, EPSILON, 0.9)"},
    {'name': 'scalar-wrapper-transposes', 'rule': 'D2.stack', 'file': 'bivariate/base.py', 'old': "        X = np.column_stack((U, V))\n        return self.partial_derivative(X)", 'new': "        X = np.column_stack((V, U))\n        return self.partial_derivative(X)"},
    {'name': 'clayton-ppf-decreasing-in-y', 'rule': 'D6.monotone', 'file': 'bivariate/clayton.py', 'old': "            a = np.power(y, self.theta / (-1 - self.theta))", 'new': "            a = np.power(y, self.theta / (1 + self.theta))"},
    {'name': 'brentq-loose-rtol', 'rule': 'D2.root', 'file': B, 'old': 'brentq(f, EPSILON, 1.0)', 'new': 'brentq(f, EPSILON, 1.0, rtol=float(EPSILON))'},
]
REWRITES = [
    {'name': 'bracket-one-minus-eps', 'file': 'bivariate/base.py', 'old': "brentq(f, EPSILON, 1.0)", 'new': "brentq(f, EPSILON, 1.0 - EPSILON)"},
    {'name': 'scalar-wrapper-inline', 'file': 'bivariate/base.py', 'old': "        X = np.column_stack((U, V))\n        return self.partial_derivative(X)", 'new': "        return self.partial_derivative(np.column_stack((U, V)))"},
    {'name': 'item-instead-of-ravel', 'file': B, 'old': "return np.ravel(self.partial_derivative_scalar(u, _v))[0] - _y", 'new': "return self.partial_derivative_scalar(u, _v).item() - _y"},
    {'name': 'upper-bracket-one-minus-eps', 'file': B, 'old': "minimum = brentq(f, EPSILON, 1.0)", 'new': "minimum = brentq(f, EPSILON, 1 - EPSILON)"},
    {'name': 'rename-loop-vars', 'file': B, 'edits': [
        {'file': B, 'old': "        for _y, _v in zip(y, V):", 'new': "        for target, given in zip(y, V):"},
        {'file': B, 'old': "return np.ravel(self.partial_derivative_scalar(u, _v))[0] - _y", 'new': "return np.ravel(self.partial_derivative_scalar(u, given))[0] - target"}]},
    {'name': 'brentq-explicit-default-xtol', 'file': B, 'old': 'brentq(f, EPSILON, 1.0)', 'new': 'brentq(f, EPSILON, 1.0, xtol=2e-12)'},
]
