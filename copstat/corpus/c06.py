"""Self-validation corpus for C06."""
C = 'bivariate/clayton.py'
F = 'bivariate/frank.py'
GU = 'bivariate/gumbel.py'
MUTANTS = [
    {'name': 'clayton-v-exponent', 'rule': 'D1.sym', 'file': C, 'old': "np.power(U[i], -self.theta) + np.power(V[i], -self.theta) - 1,", 'new': "np.power(U[i], -self.theta) + np.power(V[i], -self.theta - 1) - 1,"},
    {'name': 'frank-v-factor', 'rule': 'D1.sym', 'file': F, 'old': "num = (np.exp(-self.theta * U) - 1) * (np.exp(-self.theta * V) - 1)", 'new': "num = (np.exp(-self.theta * U) - 1) * (np.exp(-self.theta * V))"},
    {'name': 'gumbel-v-power', 'rule': 'D1.sym', 'file': GU, 'old': "            h = np.power(-np.log(U), self.theta) + np.power(-np.log(V), self.theta)\n            h = -np.power(h, 1.0 / self.theta)", 'new': "            h = np.power(-np.log(U), self.theta) + np.power(-np.log(V), 2 * self.theta)\n            h = -np.power(h, 1.0 / self.theta)"},
    {'name': 'gumbel-independence-returns-u', 'rule': 'D4.values', 'file': GU, 'old': "        if self.theta == 1:\n            return U * V\n\n        else:\n            h = np.power", 'new': "        if self.theta == 1:\n            return U\n\n        else:\n            h = np.power"},
    {'name': 'clayton-all-to-any', 'rule': 'D2.rows', 'file': C, 'old': "if (V == 0).all() or (U == 0).all():", 'new': "if (V == 0).any() or (U == 0).any():"},
    {'name': 'frank-normalised-by-max', 'rule': 'D2.rows', 'file': F, 'old': "        return -1.0 / self.theta * np.log(1 + num / den)", 'new': "        cdfs = -1.0 / self.theta * np.log(1 + num / den)\n        return cdfs / max(cdfs.max(), 1.0)"},
    {'name': 'gumbel-ppf-batch-shortcut', 'rule': 'D2.rows', 'file': GU, 'old': "        if self.theta == 1:\n            return y\n", 'new': "        if self.theta == 1 or (V == 1).all():\n            return y\n"},
    {'name': 'frank-cdf-unguarded', 'rule': 'D3.guard', 'file': F, 'old': "        self.check_fit()\n\n        U, V = split_matrix(X)\n\n        num = (np.exp(-self.theta * U) - 1)", 'new': "        U, V = split_matrix(X)\n\n        num = (np.exp(-self.theta * U) - 1)"},
    {'name': 'check-fit-without-theta-check', 'rule': 'D3.guard', 'file': 'bivariate/base.py', 'old': "            raise NotFittedError('This model is not fitted.')\n\n        self.check_theta()\n", 'new': "            raise NotFittedError('This model is not fitted.')\n"},
    {'name': 'clayton-zero-guard-returns-one', 'rule': 'D4.values', 'file': C, 'old': "                else 0\n", 'new': "                else 1\n"},
    {'name': 'clayton-outer-exponent-sign', 'rule': 'D4.values', 'file': C, 'old': "                    -1.0 / self.theta,\n", 'new': "                    1.0 / self.theta,\n"},
    {'name': 'clayton-shortcut-ones', 'rule': 'D4.values', 'file': C, 'old': "            return np.zeros(V.shape[0])", 'new': "            return np.ones(V.shape[0])"},
    {'name': 'frank-log-sign', 'rule': 'D4.values', 'file': F, 'old': "        return -1.0 / self.theta * np.log(1 + num / den)", 'new': "        return 1.0 / self.theta * np.log(1 + num / den)"},
    {'name': 'frank-missing-minus-one', 'rule': 'D4.values', 'file': F, 'old': "num = (np.exp(-self.theta * U) - 1) * (np.exp(-self.theta * V) - 1)", 'new': "num = np.exp(-self.theta * U) * np.exp(-self.theta * V)"},
    {'name': 'gumbel-exp-sign', 'rule': 'D4.values', 'file': GU, 'old': "            h = -np.power(h, 1.0 / self.theta)", 'new': "            h = np.power(h, 1.0 / self.theta)"},
    {'name': 'gumbel-stable-form-nan-corners', 'rule': 'D4.values', 'file': GU,
     'old': "            h = np.power(-np.log(U), self.theta) + np.power(-np.log(V), self.theta)\n            h = -np.power(h, 1.0 / self.theta)\n            cdfs = np.exp(h)",
     'new': "            x = -np.log(U)\n            y = -np.log(V)\n            big = np.maximum(x, y)\n            small = np.minimum(x, y)\n            h = big * np.power(1 + np.power(small / big, self.theta), 1.0 / self.theta)\n            cdfs = np.exp(-h)"},
    {'name': 'frank-generator-log1p-form', 'rule': 'D6.generator', 'file': 'bivariate/frank.py', 'old': "        a = (np.exp(-self.theta * t) - 1) / (np.exp(-self.theta) - 1)\n        return -np.log(a)", 'new': "        return np.log1p(-np.exp(-self.theta)) - np.log1p(-np.exp(-self.theta * t))"},
    {'name': 'gumbel-generator-inverse-exponent', 'rule': 'D6.generator', 'file': 'bivariate/gumbel.py', 'old': "        return np.power(-np.log(t), self.theta)", 'new': "        return np.power(-np.log(t), 1.0 / self.theta)"},
    {'name': 'clayton-generator-positive-exponent', 'rule': 'D6.generator', 'file': 'bivariate/clayton.py', 'old': "        return (1.0 / self.theta) * (np.power(t, -self.theta) - 1)", 'new': "        return (1.0 / self.theta) * (np.power(t, self.theta) - 1)"},
    {'name': 'gumbel-cdf-clipped-logs', 'rule': 'D4.values', 'file': 'bivariate/gumbel.py', 'old': "            h = np.power(-np.log(U), self.theta) + np.power(-np.log(V), self.theta)\n            h = -np.power(h, 1.0 / self.theta)", 'new': "            h = np.power(-np.log(np.clip(U, 1e-7, 1.0)), self.theta) + np.power(-np.log(np.clip(V, 1e-7, 1.0)), self.theta)\n            h = -np.power(h, 1.0 / self.theta)"},
    {'name': 'frank-cdf-reflected-theta', 'rule': 'D7.order', 'file': 'bivariate/frank.py',
     'old': "        num = (np.exp(-self.theta * U) - 1) * (np.exp(-self.theta * V) - 1)\n        den = np.exp(-self.theta) - 1\n\n        return -1.0 / self.theta * np.log(1 + num / den)",
     'new': "        num = (np.exp(self.theta * U) - 1) * (np.exp(self.theta * V) - 1)\n        den = np.exp(self.theta) - 1\n\n        return 1.0 / self.theta * np.log(1 + num / den)"},
]
REWRITES = [
    # v = 0 with u > 0 still gives 0 through power(0., -theta) = inf and inf ** (-1/theta) = 0: the one-sided guard is the same function
    {'name': 'clayton-guard-only-u', 'file': C, 'old': "                if (U[i] > 0 and V[i] > 0)", 'new': "                if (U[i] > 0)"},
    {'name': 'frank-generator-log-of-ratio-split', 'file': 'bivariate/frank.py', 'old': "        a = (np.exp(-self.theta * t) - 1) / (np.exp(-self.theta) - 1)\n        return -np.log(a)", 'new': "        num = np.exp(-self.theta * t) - 1\n        den = np.exp(-self.theta) - 1\n        return -np.log(num / den)"},
    {'name': 'clayton-generator-division', 'file': 'bivariate/clayton.py', 'old': "        return (1.0 / self.theta) * (np.power(t, -self.theta) - 1)", 'new': "        return (np.power(t, -self.theta) - 1) / self.theta"},
    {'name': 'clayton-commuted-sum', 'file': C, 'old': "np.power(U[i], -self.theta) + np.power(V[i], -self.theta) - 1,", 'new': "np.power(V[i], -self.theta) - 1 + np.power(U[i], -self.theta),"},
    {'name': 'frank-temporaries', 'file': F, 'old': "        num = (np.exp(-self.theta * U) - 1) * (np.exp(-self.theta * V) - 1)\n", 'new': "        gu = np.exp(-self.theta * U) - 1\n        gv = np.exp(-self.theta * V) - 1\n        num = gv * gu\n"},
    {'name': 'gumbel-pow-operator', 'file': GU, 'old': "            h = np.power(-np.log(U), self.theta) + np.power(-np.log(V), self.theta)\n            h = -np.power(h, 1.0 / self.theta)", 'new': "            h = (-np.log(U)) ** self.theta + (-np.log(V)) ** self.theta\n            h = -(h ** (1.0 / self.theta))"},
    {'name': 'clayton-vectorised-where', 'file': C,
     'old': "            cdfs = [\n                np.power(\n                    np.power(U[i], -self.theta) + np.power(V[i], -self.theta) - 1,\n                    -1.0 / self.theta,\n                )\n                if (U[i] > 0 and V[i] > 0)\n                else 0\n                for i in range(len(U))\n            ]\n\n            return np.array(cdfs)",
     'new': "            positive = (U > 0) & (V > 0)\n            inner = np.power(U, -self.theta) + np.power(V, -self.theta) - 1\n            return np.where(positive, np.power(inner, -1.0 / self.theta), 0)"},
    {'name': 'gumbel-single-expression', 'file': GU,
     'old': "            h = np.power(-np.log(U), self.theta) + np.power(-np.log(V), self.theta)\n            h = -np.power(h, 1.0 / self.theta)\n            cdfs = np.exp(h)\n            return cdfs",
     'new': "            lu, lv = -np.log(U), -np.log(V)\n            return np.exp(-((lu ** self.theta + lv ** self.theta) ** (1.0 / self.theta)))"},
    {'name': 'frank-expm1', 'file': F, 'old': "        den = np.exp(-self.theta) - 1\n\n        return -1.0 / self.theta * np.log(1 + num / den)", 'new': "        den = np.expm1(-self.theta)\n\n        return -np.log1p(num / den) / self.theta"},
]
