"""Self-validation corpus for C09."""
B = 'bivariate/base.py'
MUTANTS = [
    {'name': 'ppf-args-swapped', 'rule': 'D1.wiring', 'file': B, 'old': "        u = self.percent_point(c, v)\n        return np.column_stack((u, v))", 'new': "        u = self.percent_point(v, c)\n        return np.column_stack((u, v))"},
    {'name': 'stack-with-c', 'rule': 'D1.wiring', 'file': B, 'old': "        return np.column_stack((u, v))", 'new': "        return np.column_stack((u, c))"},
    {'name': 'uniform-short-range', 'rule': 'D1.draws', 'file': B, 'old': "        c = np.random.uniform(0, 1, n_samples)", 'new': "        c = np.random.uniform(0, 0.9, n_samples)"},
    {'name': 'one-draw-used-twice', 'rule': 'D1', 'file': B, 'old': "        c = np.random.uniform(0, 1, n_samples)\n\n        u = self.percent_point(c, v)", 'new': "        u = self.percent_point(v, v)"},
    {'name': 'fixed-size-draw', 'rule': 'D1.draws', 'file': B, 'old': "        v = np.random.uniform(0, 1, n_samples)", 'new': "        v = np.random.uniform(0, 1, 1000)"},
    {'name': 'normal-draw', 'rule': 'D1.draws', 'file': B, 'old': "        v = np.random.uniform(0, 1, n_samples)", 'new': "        v = np.random.normal(0, 1, n_samples)"},
    {'name': 'undecorated', 'rule': 'D2.scoped', 'file': B, 'old': "    @random_state\n    def sample(self, n_samples):", 'new': "    def sample(self, n_samples):"},
    {'name': 'stack-order-swapped', 'rule': 'D1.wiring', 'file': B, 'old': "        return np.column_stack((u, v))", 'new': "        return np.column_stack((v, u))"},
]
REWRITES = [
    {'name': 'size-keyword', 'file': B, 'old': "        v = np.random.uniform(0, 1, n_samples)", 'new': "        v = np.random.uniform(0, 1, size=n_samples)"},
    {'name': 'rename-draws', 'file': B, 'old': "        v = np.random.uniform(0, 1, n_samples)\n        c = np.random.uniform(0, 1, n_samples)\n\n        u = self.percent_point(c, v)\n        return np.column_stack((u, v))",
     'new': "        given = np.random.uniform(0, 1, n_samples)\n        prob = np.random.uniform(0, 1, n_samples)\n\n        first = self.percent_point(prob, given)\n        return np.column_stack((first, given))"},
    {'name': 'random-instead-of-uniform', 'file': B, 'old': "        c = np.random.uniform(0, 1, n_samples)", 'new': "        c = np.random.random(n_samples)"},
]
