"""Self-validation corpus for C07."""
C = 'bivariate/clayton.py'
F = 'bivariate/frank.py'
GU = 'bivariate/gumbel.py'
MUTANTS = [
    {'name': 'log-of-cdf', 'rule': 'D1.log', 'file': 'bivariate/base.py', 'old': "        return np.log(self.probability_density(X))", 'new': "        return np.log(self.cumulative_distribution(X))"},
    {'name': 'log1p', 'rule': 'D1.log', 'file': 'bivariate/base.py', 'old': "        return np.log(self.probability_density(X))", 'new': "        return np.log1p(self.probability_density(X))"},
    {'name': 'clayton-pdf-asym', 'rule': 'D2.sym', 'file': C, 'old': "b = np.power(U, -self.theta) + np.power(V, -self.theta) - 1\n        c = -(2", 'new': "b = np.power(U, -self.theta) + np.power(V, -self.theta - 1) - 1\n        c = -(2"},
    {'name': 'frank-pdf-asym', 'rule': 'D2.sym', 'file': F, 'old': "aux = self._g(U) * self._g(V) + self._g(1)", 'new': "aux = self._g(U) * self._g(V) + self._g(V)"},
    {'name': 'gumbel-pdf-asym', 'rule': 'D2.sym', 'file': GU, 'old': "c = np.power(np.log(U) * np.log(V), self.theta - 1)", 'new': "c = np.power(np.log(U) * np.log(U), self.theta - 1)"},
    {'name': 'frank-pdf-normalised', 'rule': 'D3.rows', 'file': F, 'old': "            return num / den\n\n    def cumulative_distribution", 'new': "            return num / den / (num / den).sum() * len(U)\n\n    def cumulative_distribution"},
    {'name': 'clayton-pd-any-to-all', 'rule': 'D3.rows', 'file': C, 'old': "if (A == np.inf).any():", 'new': "if (A > 1e300).any():"},
    {'name': 'gumbel-pd-batch-mean', 'rule': 'D3.rows', 'file': GU, 'old': "            return p1 * p2 * p3 / V", 'new': "            return p1 * p2 * p3 / V.mean()"},
    {'name': 'family-overrides-log-pdf', 'rule': 'D1.log', 'file': F, 'old': "    def _g(self, z):", 'new': "    def log_probability_density(self, X):\n        return np.log(np.abs(self.probability_density(X)) + 1e-12)\n\n    def _g(self, z):"},
    {'name': 'gumbel-independence-density-uv', 'rule': 'D4.values', 'file': GU, 'old': "            return np.ones(len(U))\n\n        else:\n            a = np.power(U * V, -1)", 'new': "            return U * V\n\n        else:\n            a = np.power(U * V, -1)"},
    {'name': 'gumbel-independence-h-returns-v', 'rule': 'D4.values', 'file': GU, 'old': "        if self.theta == 1:\n            return U\n\n        else:\n            t1", 'new': "        if self.theta == 1:\n            return V\n\n        else:\n            t1"},
    {'name': 'independence-h-returns-v', 'rule': 'D4.values', 'file': 'bivariate/independence.py', 'old': "        U, _ = split_matrix(X)\n        return U", 'new': "        _, V = split_matrix(X)\n        return V"},
    {'name': 'clayton-density-sign', 'rule': 'D4.values', 'file': C, 'old': "        a = (self.theta + 1) * np.power(U * V, -(self.theta + 1))", 'new': "        a = -(self.theta + 1) * np.power(U * V, -(self.theta + 1))"},
    {'name': 'frank-density-sign', 'rule': 'D4.values', 'file': F, 'old': "            num = (-self.theta * self._g(1)) * (1 + self._g(U + V))", 'new': "            num = (self.theta * self._g(1)) * (1 + self._g(U + V))"},
    {'name': 'gumbel-density-sign', 'rule': 'D4.values', 'file': GU, 'old': "            d = 1 + (self.theta - 1) * np.power(tmp, -1.0 / self.theta)", 'new': "            d = -1 - (self.theta - 1) * np.power(tmp, -1.0 / self.theta)"},
    {'name': 'clayton-h-negated', 'rule': 'D4.values', 'file': C, 'old': "        return A * h\n", 'new': "        return -A * h\n"},
    {'name': 'gumbel-h-complement', 'rule': 'D4.values', 'file': GU, 'old': "            return p1 * p2 * p3 / V\n", 'new': "            return -p1 * p2 * p3 / V\n"},
    {'name': 'frank-h-shortcut-reactivated', 'rule': 'D5.shortcut', 'file': F, 'old': "        if self.theta == 0:\n            return V\n\n        else:\n            num = self._g(U) * self._g(V) + self._g(U)", 'new': "        if np.isclose(self.theta, 0, atol=1e-3):\n            return V\n\n        else:\n            num = self._g(U) * self._g(V) + self._g(U)"},
    {'name': 'frank-pdf-shortcut-reactivated', 'rule': 'D5.shortcut', 'file': F, 'old': "        if self.theta == 0:\n            return U * V\n\n        else:\n            num = (-self.theta", 'new': "        if abs(self.theta) < 1e-6:\n            return U * V\n\n        else:\n            num = (-self.theta"},
    {'name': 'fd-perturbs-u-column', 'rule': 'D6.fd', 'file': 'bivariate/base.py', 'old': "        X_prime[:, 1] += delta", 'new': "        X_prime[:, 0] += delta"},
    {'name': 'fd-no-copy', 'rule': 'D6.fd', 'file': 'bivariate/base.py', 'old': "        X_prime = X.copy()", 'new': "        X_prime = X"},
    {'name': 'fd-huge-step', 'rule': 'D6.fd', 'file': 'bivariate/base.py', 'old': "        delta = 0.0001 * delta", 'new': "        delta = delta / 0.0001"},
    {'name': 'fd-zero-step-half-the-square', 'rule': 'D6.fd', 'file': 'bivariate/base.py', 'old': "        delta = -2 * (X[:, 1] > 0.5) + 1", 'new': "        delta = -1 * (X[:, 1] > 0.5) + 1"},
    {'name': 'fd-sum-instead-of-difference', 'rule': 'D6.fd', 'file': 'bivariate/base.py', 'old': "        return (f_prime - f) / delta", 'new': "        return (f_prime + f) / delta"},
    {'name': 'fd-times-step', 'rule': 'D6.fd', 'file': 'bivariate/base.py', 'old': "        return (f_prime - f) / delta", 'new': "        return (f_prime - f) * delta"},
    {'name': 'fd-divided-by-other-step', 'rule': 'D6.fd', 'file': 'bivariate/base.py', 'old': "        return (f_prime - f) / delta", 'new': "        return (f_prime - f) / 0.001"},
]
REWRITES = [
    {'name': 'fd-other-small-step', 'file': 'bivariate/base.py', 'old': "        delta = 0.0001 * delta", 'new': "        delta = 0.0002 * delta"},
    {'name': 'fd-backward-quotient', 'file': 'bivariate/base.py', 'old': "        return (f_prime - f) / delta", 'new': "        return (f - f_prime) / -delta"},
    {'name': 'fd-where-sign', 'file': 'bivariate/base.py', 'old': "        delta = -2 * (X[:, 1] > 0.5) + 1\n        delta = 0.0001 * delta", 'new': "        delta = np.where(X[:, 1] > 0.5, -0.0001, 0.0001)"},
    {'name': 'frank-pdf-commuted', 'file': F, 'old': "aux = self._g(U) * self._g(V) + self._g(1)", 'new': "aux = self._g(1) + self._g(V) * self._g(U)"},
    {'name': 'clayton-pdf-operators', 'file': C, 'old': "        a = (self.theta + 1) * np.power(U * V, -(self.theta + 1))", 'new': "        a = (self.theta + 1) * (V * U) ** (-(self.theta + 1))"},
    {'name': 'gumbel-independence-ones-like', 'file': GU, 'old': "            return np.ones(len(U))\n\n        else:\n            a = np.power(U * V, -1)", 'new': "            return np.ones_like(U)\n\n        else:\n            a = 1 / (U * V)"},
    {'name': 'clayton-h-single-expression', 'file': C, 'old': "        B = np.power(V, -self.theta) + np.power(U, -self.theta) - 1\n        h = np.power(B, (-1 - self.theta) / self.theta)\n        return A * h", 'new': "        B = U ** (-self.theta) + V ** (-self.theta) - 1\n        return A * B ** (-(1 + self.theta) / self.theta)"},
    {'name': 'log-pdf-temporary', 'file': 'bivariate/base.py', 'old': "        return np.log(self.probability_density(X))", 'new': "        density = self.probability_density(X)\n        return np.log(density)"},
]
