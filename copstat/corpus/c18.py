"""Self-validation corpus for C18."""
O = 'optimize/__init__.py'
MUTANTS = [
    {'name': 'bisect-assert-lower-removed', 'rule': 'D1.pre', 'file': O, 'old': "    assert (f(xmin) <= 0.0).all()\n", 'new': ""},
    {'name': 'bisect-assert-upper-flipped', 'rule': 'D1.pre', 'file': O, 'old': "    assert (f(xmax) >= 0.0).all()\n", 'new': "    assert (f(xmax) <= 0.0).all()\n"},
    {'name': 'bisect-assert-same-end', 'rule': 'D1.pre', 'file': O, 'old': "    assert (f(xmax) >= 0.0).all()\n", 'new': "    assert (f(xmin) >= 0.0).any() or True\n"},
    {'name': 'chandrupatla-assert-removed', 'rule': 'D1.pre', 'file': O, 'old': "    assert (np.sign(fa) * np.sign(fb) <= 0).all()\n", 'new': ""},
    {'name': 'bisect-mask-swapped', 'rule': 'D2.contain', 'file': O, 'old': "        xmin[fguess <= 0] = guess[fguess <= 0]\n        xmax[fguess >= 0] = guess[fguess >= 0]", 'new': "        xmin[fguess >= 0] = guess[fguess >= 0]\n        xmax[fguess <= 0] = guess[fguess <= 0]"},
    {'name': 'bisect-different-masks', 'rule': 'D2.contain', 'file': O, 'old': "        xmin[fguess <= 0] = guess[fguess <= 0]", 'new': "        xmin[fguess <= 0] = guess[fguess < 0][:np.sum(fguess <= 0)]"},
    {'name': 'bisect-returns-xmin', 'rule': 'D2.contain', 'file': O, 'old': "        if (xmax - xmin).max() < tol:\n            break\n\n    return (xmin + xmax) / 2.0", 'new': "        if (xmax - xmin).max() < tol:\n            break\n\n    return xmin + (xmax - xmin)"},
    {'name': 'chandrupatla-clip-dropped', 'rule': 'D2.contain', 'file': O, 'old': "        xt = np.clip(a + t * (b - a), xmin, xmax)", 'new': "        xt = a + t * (b - a)"},
    {'name': 'chandrupatla-extrapolated-point', 'rule': 'D2.contain', 'file': O, 'old': "        xm = np.choose(fa_is_smaller, [b, a])", 'new': "        xm = np.choose(fa_is_smaller, [b, a]) - fm * 0"},
    {'name': 'bisect-tol-loose', 'rule': 'D5.tol', 'file': O, 'old': "def bisect(f, xmin, xmax, tol=1e-8, maxiter=50):", 'new': "def bisect(f, xmin, xmax, tol=1e-3, maxiter=50):"},
    {'name': 'bisect-exit-on-min-width', 'rule': 'D5.tol', 'file': O, 'old': "        if (xmax - xmin).max() < tol:", 'new': "        if (xmax - xmin).min() < tol:"},
    {'name': 'bisect-global-shrink', 'rule': 'D3.lanes', 'file': O, 'old': "        guess = (xmin + xmax) / 2.0\n", 'new': "        guess = (xmin + xmax) / 2.0 + 0 * (xmax - xmin).max()\n"},
    {'name': 'chandrupatla-scalar-formula-edited', 'rule': 'D4.scalar', 'file': O, 'old': "                eq2 = (c - a) / (b - a) * fa / (fc - fa) * fb / (fc - fb)", 'new': "                eq2 = (c - a) / (b - a) * fa / (fc - fa) * fb / (fb - fc)"},
    {'name': 'chandrupatla-vector-formula-edited', 'rule': 'D4.scalar', 'file': O, 'old': "            t[iqi] = fa2 / (fb2 - fa2) * fc2 / (fb2 - fc2) + (c2 - a2) / (b2 - a2) * fa2 / (", 'new': "            t[iqi] = fa2 / (fb2 - fa2) * fc2 / (fb2 - fc2) + (c2 - b2) / (b2 - a2) * fa2 / ("},
    {'name': 'chandrupatla-terminate-on-any', 'rule': 'D3.lanes', 'file': O, 'old': "        iterations += 1 - terminate\n", 'new': "        iterations += 1 - terminate\n        tlim = tlim * (1 + 0 * np.any(terminate))\n"},
    {'name': 'bisect-copies-keep-caller-dtype', 'rule': 'D6.float', 'file': O, 'old': "    xmin, xmax = np.array(xmin, dtype=float), np.array(xmax, dtype=float)", 'new': "    xmin, xmax = np.array(xmin), np.array(xmax)"},
    {'name': 'bisect-int-buffers', 'rule': 'D6.float', 'file': O, 'old': "    xmin, xmax = np.array(xmin, dtype=float), np.array(xmax, dtype=float)", 'new': "    xmin, xmax = np.array(xmin, dtype=int), np.array(xmax, dtype=float)"},
    {'name': 'chandrupatla-absolute-tolerance-of-bisect', 'rule': 'D5.tol', 'file': O, 'old': "        eps_a = 2 * eps\n", 'new': "        eps_a = 1e-8\n"},
    {'name': 'chandrupatla-relative-tolerance-float32', 'rule': 'D5.tol', 'file': O, 'old': "    eps = np.finfo(float).eps\n", 'new': "    eps = np.finfo(np.float32).eps\n"},
    {'name': 'chandrupatla-signature-default-tolerance', 'rule': 'D5.tol', 'file': O, 'old': "def chandrupatla(f, xmin, xmax, eps_m=None, eps_a=None, maxiter=50):", 'new': "def chandrupatla(f, xmin, xmax, eps_m=None, eps_a=1e-6, maxiter=50):"},
]
REWRITES = [
    {'name': 'chandrupatla-tolerance-ifexp', 'file': O, 'old': "    if eps_a is None:\n        eps_a = 2 * eps\n", 'new': "    eps_a = 2 * eps if eps_a is None else eps_a\n"},
    {'name': 'bisect-float-by-astype', 'file': O, 'old': "    xmin, xmax = np.array(xmin, dtype=float), np.array(xmax, dtype=float)", 'new': "    xmin = np.array(xmin).astype(np.float64)\n    xmax = np.array(xmax, dtype='float64')"},
    {'name': 'bisect-where-form', 'file': O, 'old': "        xmin[fguess <= 0] = guess[fguess <= 0]\n        xmax[fguess >= 0] = guess[fguess >= 0]", 'new': "        xmin = np.where(fguess <= 0, guess, xmin)\n        xmax = np.where(fguess >= 0, guess, xmax)"},
    {'name': 'bisect-mask-temp', 'file': O, 'old': "        xmin[fguess <= 0] = guess[fguess <= 0]\n", 'new': "        below = fguess <= 0\n        xmin[below] = guess[below]\n"},
    {'name': 'bisect-half-times', 'file': O, 'old': "        guess = (xmin + xmax) / 2.0\n", 'new': "        guess = 0.5 * (xmin + xmax)\n"},
    {'name': 'chandrupatla-commuted-eq', 'file': O, 'old': "                t = eq1 + eq2\n", 'new': "                t = eq2 + eq1\n"},
    {'name': 'bisect-raise-instead-of-assert', 'file': O, 'old': "    assert (f(xmin) <= 0.0).all()\n", 'new': "    if (f(xmin) > 0.0).any():\n        raise ValueError('f(xmin) must be <= 0')\n"},
]
