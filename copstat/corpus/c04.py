"""Self-validation corpus for C04."""
TG = 'univariate/truncated_gaussian.py'
KD = 'univariate/gaussian_kde.py'
MUTANTS = [
    {'name': 'gaussian-variance-as-scale', 'rule': 'D', 'file': 'univariate/gaussian.py', 'old': "'scale': np.std(X)}", 'new': "'scale': np.var(X)}"},
    {'name': 'gaussian-sample-std', 'rule': 'D2.closed', 'file': 'univariate/gaussian.py', 'old': "'scale': np.std(X)}", 'new': "'scale': np.std(X, ddof=1)}"},
    {'name': 'gaussian-median-loc', 'rule': 'D2.closed', 'file': 'univariate/gaussian.py', 'old': "{'loc': np.mean(X),", 'new': "{'loc': np.median(X),"},
    {'name': 'gaussian-loc-scale-swapped', 'rule': 'D1.dims', 'file': 'univariate/gaussian.py', 'old': "self._params = {'loc': np.mean(X), 'scale': np.std(X)}", 'new': "self._params = {'loc': np.std(X), 'scale': np.mean(X)}"},
    {'name': 'uniform-scale-is-max', 'rule': 'D', 'file': 'univariate/uniform.py', 'old': "    def _fit(self, X):\n        self._params = {'loc': np.min(X), 'scale': np.max(X) - np.min(X)}", 'new': "    def _fit(self, X):\n        self._params = {'loc': np.min(X), 'scale': np.max(X)}"},
    {'name': 'uniform-loc-is-max', 'rule': 'D2.closed', 'file': 'univariate/uniform.py', 'old': "    def _fit(self, X):\n        self._params = {'loc': np.min(X), 'scale': np.max(X) - np.min(X)}", 'new': "    def _fit(self, X):\n        self._params = {'loc': np.max(X), 'scale': np.max(X) - np.min(X)}"},
    {'name': 'beta-scale-is-max', 'rule': 'D1.dims', 'file': 'univariate/beta.py', 'old': "        scale = np.max(X) - loc\n", 'new': "        scale = np.max(X)\n"},
    {'name': 'truncated-standardisation-multiplied', 'rule': 'D1.dims', 'file': TG, 'old': "        loc, scale = optimal\n        a = (minimum - loc) / scale", 'new': "        loc, scale = optimal\n        a = (minimum - loc) * scale"},
    {'name': 'truncated-a-not-centred', 'rule': 'D1.dims', 'file': TG, 'old': "        loc, scale = optimal\n        a = (minimum - loc) / scale", 'new': "        loc, scale = optimal\n        a = minimum / scale"},
    {'name': 'truncated-start-swapped', 'rule': 'D1.dims', 'file': TG, 'old': "        initial_params = X.mean(), X.std()", 'new': "        initial_params = X.std(), X.mean()"},
    {'name': 'truncated-bounds-ignored', 'rule': 'D3.bounds', 'file': TG, 'old': "        minimum = self.min\n        if minimum is None:\n            minimum = X.min() - EPSILON", 'new': "        minimum = self.min\n        minimum = X.min() - EPSILON"},
    {'name': 'truncated-max-overwritten', 'rule': 'D3.bounds', 'file': TG, 'old': "        maximum = self.max\n        if maximum is None:\n            maximum = X.max() + EPSILON", 'new': "        maximum = X.max() + EPSILON"},
    {'name': 'kde-fit-drops-bw', 'rule': 'D4.kde', 'file': KD, 'old': "X = gaussian_kde(X, bw_method=self.bw_method, weights=self.weights).resample(", 'new': "X = gaussian_kde(X, weights=self.weights).resample("},
    {'name': 'kde-model-drops-weights', 'rule': 'D4.kde', 'file': KD, 'old': "return gaussian_kde(dataset, bw_method=self.bw_method, weights=self.weights)", 'new': "return gaussian_kde(dataset, bw_method=self.bw_method)"},
    {'name': 'kde-resample-fixed-size', 'rule': 'D4.kde', 'file': KD, 'old': "                self._sample_size\n            )", 'new': "                1000\n            )"},
    {'name': 'kde-dataset-sorted-unique', 'rule': 'D4.kde', 'file': KD, 'old': "        self._params = {'dataset': X.tolist()}", 'new': "        self._params = {'dataset': np.unique(X).tolist()}"},
    {'name': 'truncated-bounds-by-truthiness', 'rule': 'D3.bounds', 'file': 'univariate/truncated_gaussian.py',
     'old': "        minimum = self.min\n        if minimum is None:\n            minimum = X.min() - EPSILON\n", 'new': "        minimum = self.min or X.min() - EPSILON\n"},
    {'name': 'truncated-max-if-not', 'rule': 'D3.bounds', 'file': 'univariate/truncated_gaussian.py',
     'old': "        if maximum is None:\n", 'new': "        if not maximum:\n"},
    {'name': 'kde-model-on-callers-array', 'rule': 'D4.kde', 'file': KD, 'old': "        self._params = {'dataset': X.tolist()}\n        self._model = self._get_model()\n", 'new': "        self._params = {'dataset': X.tolist()}\n        self._model = gaussian_kde(np.asarray(X), bw_method=self.bw_method, weights=self.weights)\n"},
]
REWRITES = [
    {'name': 'gaussian-methods', 'file': 'univariate/gaussian.py', 'old': "self._params = {'loc': np.mean(X), 'scale': np.std(X)}", 'new': "self._params = {'loc': X.mean(), 'scale': X.std()}"},
    {'name': 'uniform-ptp', 'file': 'univariate/uniform.py', 'old': "    def _fit(self, X):\n        self._params = {'loc': np.min(X), 'scale': np.max(X) - np.min(X)}", 'new': "    def _fit(self, X):\n        self._params = {'loc': np.min(X), 'scale': np.ptp(X)}"},
    {'name': 'truncated-fix-bound', 'file': TG, 'old': "(0.0, (maximum - minimum) ** 2)", 'new': "(0.0, maximum - minimum)"},
    {'name': 'gaussian-ddof-zero-explicit', 'file': 'univariate/gaussian.py', 'old': "'scale': np.std(X)}", 'new': "'scale': np.std(X, ddof=0)}"},
    {'name': 'truncated-bounds-conditional-expression', 'file': 'univariate/truncated_gaussian.py',
     'old': "        minimum = self.min\n        if minimum is None:\n            minimum = X.min() - EPSILON\n", 'new': "        minimum = X.min() - EPSILON if self.min is None else self.min\n"},
    {'name': 'kde-model-on-a-copy', 'file': KD, 'old': "        self._params = {'dataset': X.tolist()}\n        self._model = self._get_model()\n", 'new': "        self._params = {'dataset': X.tolist()}\n        self._model = gaussian_kde(np.array(self._params['dataset']), bw_method=self.bw_method, weights=self.weights)\n"},
]
