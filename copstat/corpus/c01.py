"""Self-validation corpus for C01."""
G = 'multivariate/gaussian.py'
MUTANTS = [
    {'name': 'draw-one-row-short', 'rule': 'D1.rows', 'file': G, 'old': "samples = np.random.multivariate_normal(means, covariance, size=num_rows)", 'new': "samples = np.random.multivariate_normal(means, covariance, size=num_rows - 1)"},
    {'name': 'conditioned-column-wrong-length', 'rule': 'D1.rows', 'file': G, 'old': "output[column_name] = np.full(num_rows, conditions[column_name])", 'new': "output[column_name] = np.full(len(conditions), conditions[column_name])"},
    {'name': 'iterate-sorted-columns', 'rule': 'D2.loop', 'file': G, 'old': "        for column_name, univariate in zip(self.columns, self.univariates):\n            if conditions is not None", 'new': "        for column_name, univariate in zip(sorted(self.columns), self.univariates):\n            if conditions is not None"},
    {'name': 'else-assignment-dropped', 'rule': 'D2.loop', 'file': G, 'old': "                cdf = stats.norm.cdf(samples[column_name])\n                output[column_name] = univariate.percent_point(cdf)", 'new': "                cdf = stats.norm.cdf(samples[column_name])\n                if cdf.size:\n                    output[column_name] = univariate.percent_point(cdf)"},
    {'name': 'pdf-instead-of-cdf', 'rule': 'D3.kinds', 'file': G, 'old': "                cdf = stats.norm.cdf(samples[column_name])", 'new': "                cdf = stats.norm.pdf(samples[column_name])"},
    {'name': 'normal-draw-straight-to-quantile', 'rule': 'D3.kinds', 'file': G, 'old': "                output[column_name] = univariate.percent_point(cdf)", 'new': "                output[column_name] = univariate.percent_point(samples[column_name])"},
    {'name': 'identity-covariance', 'rule': 'D4.cov', 'file': G, 'old': "            covariance = self.correlation\n", 'new': "            covariance = np.identity(len(self.columns))\n"},
    {'name': 'nonzero-mean', 'rule': 'D4.cov', 'file': G, 'old': "            means = np.zeros(len(columns))\n", 'new': "            means = np.ones(len(columns))\n"},
    {'name': 'clip-dropped', 'rule': 'D3.kinds', 'file': G, 'old': "U.append(univariate.cdf(column.to_numpy()).clip(EPSILON, 1 - EPSILON))", 'new': "U.append(univariate.cdf(column.to_numpy()))"},
    {'name': 'skip-constant-columns-in-fit', 'rule': 'D2.coappend', 'file': G, 'old': "            univariate = self._fit_column(column, distribution, column_name)\n            columns.append(column_name)", 'new': "            univariate = self._fit_column(column, distribution, column_name)\n            if column.nunique() < 2:\n                continue\n            columns.append(column_name)"},
    {'name': 'columns-univariates-swapped-in-fit', 'rule': 'D2.coappend', 'file': G, 'old': "        self.columns = columns\n        self.univariates = univariates\n", 'new': "        self.columns = univariates\n        self.univariates = columns\n"},
    {'name': 'wrong-column-selected', 'rule': 'D3.kinds', 'file': G, 'old': "                cdf = stats.norm.cdf(samples[column_name])", 'new': "                first = self.columns[0]\n                cdf = stats.norm.cdf(samples[first])"},
    {'name': 'correlation-on-leading-rows', 'rule': 'D5.allrows', 'file': G, 'old': '        result = self._transform_to_normal(X)\n        correlation = pd.DataFrame(data=result).corr().to_numpy()', 'new': '        X = X[:5000]\n        result = self._transform_to_normal(X)\n        correlation = pd.DataFrame(data=result).corr().to_numpy()'},
    {'name': 'fit-on-rows-without-missing', 'rule': 'D5.allrows', 'file': G, 'old': '        X = self._validate_input(X)\n        columns, univariates = self._fit_columns(X)', 'new': '        X = self._validate_input(X)\n        X = X.dropna()\n        columns, univariates = self._fit_columns(X)'},
]
REWRITES = [
    {'name': 'ndtr-for-norm-cdf', 'file': G, 'edits': [
        {'file': G, 'old': "                cdf = stats.norm.cdf(samples[column_name])", 'new': "                cdf = special.ndtr(samples[column_name])"},
        {'file': G, 'old': "from scipy import stats\n", 'new': "from scipy import special, stats\n"}]},
    {'name': 'explicit-columns-on-frame', 'file': G, 'old': "        return pd.DataFrame(data=output)", 'new': "        return pd.DataFrame(data=output, columns=self.columns)"},
    {'name': 'inline-cdf-temp', 'file': G, 'old': "                cdf = stats.norm.cdf(samples[column_name])\n                output[column_name] = univariate.percent_point(cdf)", 'new': "                output[column_name] = univariate.percent_point(stats.norm.cdf(samples[column_name]))"},
    {'name': 'size-positional', 'file': G, 'old': "np.random.multivariate_normal(means, covariance, size=num_rows)", 'new': "np.random.multivariate_normal(means, covariance, num_rows)"},
    {'name': 'correlation-on-a-copy', 'file': G, 'old': '        result = self._transform_to_normal(X)\n        correlation = pd.DataFrame(data=result).corr().to_numpy()', 'new': '        X = X.copy()\n        result = self._transform_to_normal(X)\n        correlation = pd.DataFrame(data=result).corr().to_numpy()'},
]
