"""Self-validation corpus for C13."""
G = 'multivariate/gaussian.py'
MUTANTS = [
    {'name': 'iterate-query-columns', 'rule': 'D2', 'file': G, 'old': "        for column_name, univariate in zip(self.columns, self.univariates):\n            if column_name in X:", 'new': "        for column_name, univariate in zip(X.columns, self.univariates):\n            if column_name in X:"},
    {'name': 'identity-cov-pdf', 'rule': 'D1.delegate', 'file': G, 'old': "return stats.multivariate_normal.pdf(transformed, cov=self.correlation, allow_singular=True)", 'new': "return stats.multivariate_normal.pdf(transformed, cov=np.identity(len(self.columns)), allow_singular=True)"},
    {'name': 'cov-dropped-cdf', 'rule': 'D1.delegate', 'file': G, 'old': "return stats.multivariate_normal.cdf(transformed, cov=self.correlation)", 'new': "return stats.multivariate_normal.cdf(transformed)"},
    {'name': 'cdf-calls-pdf', 'rule': 'D1.delegate', 'file': G, 'old': "return stats.multivariate_normal.cdf(transformed, cov=self.correlation)", 'new': "return stats.multivariate_normal.pdf(transformed, cov=self.correlation)"},
    {'name': 'raw-points-to-mvn', 'rule': 'D1.delegate', 'file': G, 'old': "        transformed = self._transform_to_normal(X)\n        return stats.multivariate_normal.cdf", 'new': "        transformed = np.asarray(X)\n        return stats.multivariate_normal.cdf"},
    {'name': 'series-branch-removed', 'rule': 'D2.series', 'file': G, 'old': "        if isinstance(X, pd.Series):\n            X = X.to_frame().T\n        elif not isinstance(X, pd.DataFrame):", 'new': "        if not isinstance(X, pd.DataFrame):"},
    {'name': 'series-positional', 'rule': 'D2', 'file': G, 'old': "            X = X.to_frame().T\n", 'new': "            X = pd.DataFrame([X.to_numpy()], columns=self.columns)\n"},
    {'name': 'array-labelled-sorted', 'rule': 'D2', 'file': G, 'old': "            X = pd.DataFrame(X, columns=self.columns)\n", 'new': "            X = pd.DataFrame(X, columns=sorted(self.columns))\n"},
    {'name': 'standardise-batch', 'rule': 'D3.rows', 'file': G, 'old': "        return stats.norm.ppf(np.column_stack(U))", 'new': "        scores = stats.norm.ppf(np.column_stack(U))\n        return scores - scores.mean(axis=0) * 0.0"},
    {'name': 'log-of-cdf', 'rule': 'D1.log', 'file': 'multivariate/base.py', 'old': "        return np.log(self.probability_density(X))", 'new': "        return np.log(self.cumulative_distribution(X))"},
    {'name': 'nonzero-mean', 'rule': 'D1.delegate', 'file': G, 'old': "return stats.multivariate_normal.cdf(transformed, cov=self.correlation)", 'new': "return stats.multivariate_normal.cdf(transformed, mean=np.ones(len(self.columns)), cov=self.correlation)"},
]
REWRITES = [
    {'name': 'temp-before-return', 'file': G, 'old': "        return stats.multivariate_normal.cdf(transformed, cov=self.correlation)", 'new': "        result = stats.multivariate_normal.cdf(transformed, cov=self.correlation)\n        return result"},
    {'name': 'series-to-frame-via-dataframe', 'file': G, 'old': "            X = X.to_frame().T\n", 'new': "            X = pd.DataFrame([X])\n"},
    {'name': 'explicit-zero-mean', 'file': G, 'old': "return stats.multivariate_normal.cdf(transformed, cov=self.correlation)", 'new': "return stats.multivariate_normal.cdf(transformed, mean=np.zeros(len(self.columns)), cov=self.correlation)"},
]
