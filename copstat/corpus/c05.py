"""Self-validation corpus for C05."""
S = 'univariate/selection.py'
UB = 'univariate/base.py'
G = 'multivariate/gaussian.py'
MUTANTS = [
    {'name': 'argmin-polarity', 'rule': 'D1.argmin', 'file': S, 'old': "            if ks < best_ks:", 'new': "            if ks > best_ks:"},
    {'name': 'best-model-outside-guard', 'rule': 'D1.argmin', 'file': S, 'old': "            if ks < best_ks:\n                best_ks = ks\n                best_model = model\n", 'new': "            if ks < best_ks:\n                best_ks = ks\n            best_model = model\n"},
    {'name': 'initial-zero', 'rule': 'D1.argmin', 'file': S, 'old': "    best_ks = np.inf\n", 'new': "    best_ks = 0\n"},
    {'name': 'pvalue-as-score', 'rule': 'D2.score', 'file': S, 'old': "            ks, _ = kstest(X, instance.cdf)", 'new': "            _, ks = kstest(X, instance.cdf)"},
    {'name': 'kstest-on-pdf', 'rule': 'D2.score', 'file': S, 'old': "            ks, _ = kstest(X, instance.cdf)", 'new': "            ks, _ = kstest(X, instance.pdf)"},
    {'name': 'kstest-before-fit', 'rule': 'D2.score', 'file': S, 'old': "            instance.fit(X)\n            ks, _ = kstest(X, instance.cdf)\n", 'new': "            ks, _ = kstest(X, instance.cdf)\n            instance.fit(X)\n"},
    {'name': 'narrow-handler', 'rule': 'D3.envelope', 'file': S, 'old': "        except Exception:\n            # Distribution not supported", 'new': "        except ValueError:\n            # Distribution not supported"},
    {'name': 'handler-breaks', 'rule': 'D3.envelope', 'file': S, 'old': "            # Distribution not supported\n            pass", 'new': "            # Distribution not supported\n            break"},
    {'name': 'fit-outside-try', 'rule': 'D3.envelope', 'file': S, 'old': "        try:\n            instance = get_instance(model)\n            instance.fit(X)\n", 'new': "        instance = get_instance(model)\n        instance.fit(X)\n        try:\n"},
    {'name': 'returns-candidate-itself', 'rule': 'D1.argmin', 'file': S, 'old': "    return get_instance(best_model)", 'new': "    return best_model"},
    {'name': 'abc-not-skipped', 'rule': 'D4.enum', 'file': UB, 'old': "            if ABC in subclass.__bases__:\n                continue\n", 'new': ""},
    {'name': 'bounded-filter-equal', 'rule': 'D4.enum', 'file': UB, 'old': "if bounded is not None and subclass.BOUNDED != bounded:", 'new': "if bounded is not None and subclass.BOUNDED == bounded:"},
    {'name': 'filters-swapped-in-recursion', 'rule': 'D4.enum', 'file': UB, 'old': "candidates.extend(subclass._select_candidates(parametric, bounded))", 'new': "candidates.extend(subclass._select_candidates(bounded, parametric))"},
    {'name': 'family-without-bounded-tag', 'rule': 'D4.enum', 'file': 'univariate/beta.py', 'old': "    BOUNDED = BoundedType.BOUNDED\n", 'new': ""},
    {'name': 'explicit-candidates-ignored', 'rule': 'D4.enum', 'file': UB, 'old': "self.candidates = candidates or self._select_candidates(parametric, bounded)", 'new': "self.candidates = self._select_candidates(parametric, bounded)"},
    {'name': 'dict-default-missing', 'rule': 'D5.column', 'file': G, 'old': "return self.distribution.get(column_name, DEFAULT_DISTRIBUTION)", 'new': "return self.distribution.get(column_name)"},
    {'name': 'dict-lookup-fixed-key', 'rule': 'D5.column', 'file': G, 'old': "return self.distribution.get(column_name, DEFAULT_DISTRIBUTION)", 'new': "return self.distribution.get(self.columns, DEFAULT_DISTRIBUTION)"},
    {'name': 'fallback-not-fitted', 'rule': 'D6.fallback', 'file': G, 'old': "        univariate = GaussianUnivariate()\n        univariate.fit(column)\n        return univariate", 'new': "        univariate = GaussianUnivariate()\n        return univariate"},
    {'name': 'fallback-result-dropped', 'rule': 'D6.fallback', 'file': G, 'old': "            univariate = self._fit_with_fallback_distribution(\n                column, distribution, column_name, error\n            )", 'new': "            self._fit_with_fallback_distribution(\n                column, distribution, column_name, error\n            )"},
    {'name': 'fallback-narrow', 'rule': 'D6.fallback', 'file': G, 'old': "        except Exception as error:", 'new': "        except ValueError as error:"},
    {'name': 'get-instance-returns-obj', 'rule': 'D7.clone', 'file': 'utils.py', 'old': "        instance = obj(**kwargs)\n", 'new': "        instance = obj\n"},
    {'name': 'univariate-init-unrecorded', 'rule': 'D7.clone', 'file': UB, 'old': "    @store_args\n    def __init__(\n        self,\n        candidates=None,", 'new': "    def __init__(\n        self,\n        candidates=None,"},
    {'name': 'bug-like-failures-bypass-fallback', 'rule': 'D6.fallback', 'file': G, 'old': '        except Exception as error:\n            univariate = self._fit_with_fallback_distribution(', 'new': '        except (AttributeError, NotImplementedError):\n            raise\n        except Exception as error:\n            univariate = self._fit_with_fallback_distribution('},
]
REWRITES = [
    {'name': 'flipped-compare', 'file': S, 'old': "            if ks < best_ks:", 'new': "            if best_ks > ks:"},
    {'name': 'float-inf', 'file': S, 'old': "    best_ks = np.inf\n", 'new': "    best_ks = float('inf')\n"},
    {'name': 'subscript-statistic', 'file': S, 'old': "            ks, _ = kstest(X, instance.cdf)", 'new': "            ks = kstest(X, instance.cdf)[0]"},
    {'name': 'handler-continue', 'file': S, 'old': "            # Distribution not supported\n            pass", 'new': "            # Distribution not supported\n            continue"},
    {'name': 'keyboard-interrupt-passes', 'file': G, 'old': '        except Exception as error:\n            univariate = self._fit_with_fallback_distribution(', 'new': '        except KeyboardInterrupt:\n            raise\n        except Exception as error:\n            univariate = self._fit_with_fallback_distribution('},
]
