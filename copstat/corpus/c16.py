"""Self-validation corpus for C16."""
T = 'multivariate/tree.py'
V = 'multivariate/vine.py'
MUTANTS = [
    {'name': 'tree-loop-ignores-nvar', 'rule': 'D1.trees', 'file': V, 'old': "        for k in range(1, min(self.n_var - 1, self.truncated)):", 'new': "        for k in range(1, self.truncated):"},
    {'name': 'tree-loop-off-by-one', 'rule': 'D1.trees', 'file': V, 'old': "        for k in range(1, min(self.n_var - 1, self.truncated)):", 'new': "        for k in range(1, min(self.n_var, self.truncated)):"},
    {'name': 'tree-k-wrong-nodes', 'rule': 'D1.trees', 'file': V, 'old': "            tree_k.fit(k, self.n_var - k, tau, self.trees[k - 1])", 'new': "            tree_k.fit(k, self.n_var - k - 1, tau, self.trees[k - 1])"},
    {'name': 'tree-k-previous-first', 'rule': 'D1.trees', 'file': V, 'old': "            tree_k.fit(k, self.n_var - k, tau, self.trees[k - 1])", 'new': "            tree_k.fit(k, self.n_var - k, tau, self.trees[0])"},
    {'name': 'center-edge-loop-short', 'rule': 'D2.edges', 'file': T, 'old': "        tau_sorted = self._sort_tau_by_y(0)\n        for itr in range(self.n_nodes - 1):", 'new': "        tau_sorted = self._sort_tau_by_y(0)\n        for itr in range(self.n_nodes - 2):"},
    {'name': 'direct-kth-conditional-append', 'rule': 'D2.edges', 'file': T, 'old': "            new_edge.tau = self.tau_matrix[k, k + 1]\n            self.edges.append(new_edge)", 'new': "            new_edge.tau = self.tau_matrix[k, k + 1]\n            if new_edge.tau == new_edge.tau:\n                self.edges.append(new_edge)"},
    {'name': 'regular-start-two-nodes', 'rule': 'D2.edges', 'file': T, 'old': "        X = {0}\n", 'new': "        X = {0, 1}\n"},
    {'name': 'regular-index-off', 'rule': 'D3.index', 'file': T, 'old': "            new_edge = Edge(len(X) - 1, left, right, name, theta)", 'new': "            new_edge = Edge(len(X), left, right, name, theta)"},
    {'name': 'center-index-constant', 'rule': 'D3.index', 'file': T, 'old': "            new_edge = Edge(itr, 0, ind, name, theta)", 'new': "            new_edge = Edge(0, 0, ind, name, theta)"},
    {'name': 'child-union-instead-of-intersection', 'rule': 'D4.child', 'file': T, 'old': "        depend_set = A & B", 'new': "        depend_set = A | B"},
    {'name': 'child-pair-from-union', 'rule': 'D4.child', 'file': T, 'old': "        left, right = sorted(A ^ B)", 'new': "        left, right = sorted(A | B)[:2]"},
    {'name': 'child-D-missing', 'rule': 'D4.child', 'file': T, 'old': "        A = {first.L, first.R}\n        A.update(first.D)\n", 'new': "        A = {first.L, first.R}\n"},
    {'name': 'child-parents-not-recorded', 'rule': 'D4.child', 'file': T, 'old': "        new_edge.parents = [left_parent, right_parent]\n", 'new': "        new_edge.parents = [left_parent, left_parent]\n"},
    {'name': 'proximity-level', 'rule': 'D5.proximity', 'file': T, 'old': "        return len(full_node) == (self.level + 1)", 'new': "        return len(full_node) == (self.level)"},
    {'name': 'proximity-not-used', 'rule': 'D5.proximity', 'file': T, 'old': "                    if k not in visited and k != x and self._check_constraint(edges[x], edges[k]):", 'new': "                    if k not in visited and k != x:"},
    {'name': 'direct-kth-skips', 'rule': 'D5.proximity', 'file': T, 'old': "            left_parent, right_parent = Edge.sort_edge([edges[k], edges[k + 1]])", 'new': "            left_parent, right_parent = Edge.sort_edge([edges[0], edges[k + 1]])"},
    {'name': 'prim-picks-last', 'rule': 'D7.polarity', 'file': T, 'old': "            edge = sorted(adj_set, key=lambda e: neg_tau[e[0]][e[1]])[0]", 'new': "            edge = sorted(adj_set, key=lambda e: neg_tau[e[0]][e[1]])[-1]"},
    {'name': 'prim-positive-tau', 'rule': 'D7.polarity', 'file': T, 'old': "        # Prim's algorithm\n        neg_tau = -1.0 * abs(self.tau_matrix)", 'new': "        # Prim's algorithm\n        neg_tau = abs(self.tau_matrix)"},
    {'name': 'sort-ascending', 'rule': 'D7.polarity', 'file': T, 'old': "        sort_temp = temp[:, 2].argsort()[::-1]", 'new': "        sort_temp = temp[:, 2].argsort()"},
    {'name': 'tau-from-pseudo-obs', 'rule': 'D7.polarity', 'file': V, 'old': "        self.tau_mat = X.corr(method='kendall').to_numpy()", 'new': "        self.tau_mat = X.corr(method='pearson').to_numpy()"},
    {'name': 'edge-theta-from-frank', 'rule': 'D8.copula', 'file': T, 'old': "        copula = Bivariate.select_copula(X)\n        name, theta = copula.copula_type, copula.theta", 'new': "        copula = Bivariate.select_copula(X)\n        name, theta = copula.copula_type, copula.tau"},
    {'name': 'center-kth-moving-anchor', 'rule': 'D6.shape', 'file': T, 'old': "            left_parent, right_parent = Edge.sort_edge([edges[anchor], edges[right]])", 'new': "            left_parent, right_parent = Edge.sort_edge([edges[itr], edges[right]])"},
    {'name': 'direct-first-not-consecutive', 'rule': 'D6.shape', 'file': T, 'old': "            left, right = sorted([T1[k], T1[k + 1]])", 'new': "            left, right = sorted([T1[0], T1[k + 1]])"},
]
REWRITES = [
    {'name': 'min-args-swapped', 'file': V, 'old': "        for k in range(1, min(self.n_var - 1, self.truncated)):", 'new': "        for k in range(1, min(self.truncated, self.n_var - 1)):"},
    {'name': 'intersection-commuted', 'file': T, 'old': "        depend_set = A & B", 'new': "        depend_set = B & A"},
    {'name': 'proximity-commuted', 'file': T, 'old': "        return len(full_node) == (self.level + 1)", 'new': "        return 1 + self.level == len(full_node)"},
    {'name': 'neg-tau-unary', 'file': T, 'count': 2, 'old': "        neg_tau = -1.0 * abs(self.tau_matrix)", 'new': "        neg_tau = -abs(self.tau_matrix)"},
]
