"""Self-validation corpus for C10."""
B = 'bivariate/base.py'
MUTANTS = [
    {'name': 'check-marginal-V-dropped', 'rule': 'D1.path', 'file': B, 'old': "        self.check_marginal(U)\n        self.check_marginal(V)\n", 'new': "        self.check_marginal(U)\n"},
    {'name': 'check-marginal-U-twice', 'rule': 'D1.path', 'file': B, 'old': "        self.check_marginal(U)\n        self.check_marginal(V)\n", 'new': "        self.check_marginal(U)\n        self.check_marginal(U)\n"},
    {'name': 'tau-is-pvalue', 'rule': 'D1.path', 'file': B, 'old': "self.tau = stats.kendalltau(U, V)[0]", 'new': "self.tau = stats.kendalltau(U, V)[1]"},
    {'name': 'tau-of-U-U', 'rule': 'D1.path', 'file': B, 'old': "self.tau = stats.kendalltau(U, V)[0]", 'new': "self.tau = stats.kendalltau(U, U)[0]"},
    {'name': 'nan-only-warns', 'rule': 'D1.path', 'file': B, 'old': "            raise ValueError('Unable to compute tau.')", 'new': "            warnings.warn('Unable to compute tau.')\n            return"},
    {'name': 'compute-theta-conditional', 'rule': 'D1.path', 'file': B, 'old': "            raise ValueError('Unable to compute tau.')\n        self._compute_theta()", 'new': "            raise ValueError('Unable to compute tau.')\n        if self.tau > 0:\n            self._compute_theta()"},
    {'name': 'checks-after-tau', 'rule': 'D1.path', 'file': B, 'old': "        self.check_marginal(U)\n        self.check_marginal(V)\n        self.tau = stats.kendalltau(U, V)[0]\n", 'new': "        self.tau = stats.kendalltau(U, V)[0]\n        self.check_marginal(U)\n        self.check_marginal(V)\n"},
    {'name': 'range-and', 'rule': 'D2.range', 'file': B, 'old': "if min(u) < 0.0 or max(u) > 1.0:", 'new': "if min(u) < 0.0 and max(u) > 1.0:"},
    {'name': 'range-upper-two', 'rule': 'D2.range', 'file': B, 'old': "if min(u) < 0.0 or max(u) > 1.0:", 'new': "if min(u) < 0.0 or max(u) > 2.0:"},
    {'name': 'range-min-max-swapped', 'rule': 'D2.range', 'file': B, 'old': "if min(u) < 0.0 or max(u) > 1.0:", 'new': "if max(u) < 0.0 or min(u) > 1.0:"},
    {'name': 'check-theta-removed', 'rule': 'D3.validate', 'file': B, 'old': "        self.theta = self.compute_theta()\n        self.check_theta()\n", 'new': "        self.theta = self.compute_theta()\n"},
    {'name': 'check-theta-before-assign', 'rule': 'D3.validate', 'file': B, 'old': "        self.theta = self.compute_theta()\n        self.check_theta()\n", 'new': "        self.check_theta()\n        self.theta = self.compute_theta()\n"},
    {'name': 'invalid-thetas-ignored', 'rule': 'D3.check', 'file': B, 'old': "if (not lower <= self.theta <= upper) or (self.theta in self.invalid_thetas):", 'new': "if not lower <= self.theta <= upper:"},
    {'name': 'interval-open', 'rule': 'D3.check', 'file': B, 'old': "if (not lower <= self.theta <= upper) or (self.theta in self.invalid_thetas):", 'new': "if (not lower < self.theta <= upper) or (self.theta in self.invalid_thetas):"},
    {'name': 'gumbel-interval-zero', 'rule': 'D4.domain', 'file': 'bivariate/gumbel.py', 'old': "    theta_interval = [1, float('inf')]", 'new': "    theta_interval = [0, float('inf')]"},
    {'name': 'clayton-interval-minus-one', 'rule': 'D4.domain', 'file': 'bivariate/clayton.py', 'old': "    theta_interval = [0, float('inf')]", 'new': "    theta_interval = [-1, float('inf')]"},
    {'name': 'frank-zero-allowed', 'rule': 'D4.domain', 'file': 'bivariate/frank.py', 'old': "    invalid_thetas = [0]", 'new': "    invalid_thetas = []"},
    {'name': 'theta-written-in-fit', 'rule': 'D5.writers', 'file': B, 'old': "        self._compute_theta()\n\n    def to_dict", 'new': "        self._compute_theta()\n        self.theta = abs(self.theta)\n\n    def to_dict"},
    {'name': 'frank-rank-regression', 'rule': 'D6.rank', 'file': 'bivariate/frank.py', 'old': "        alpha = np.ravel(alpha)[0]  # least_squares passes a one-element vector\n", 'new': ""},
    {'name': 'gumbel-tau-one-accepted', 'rule': 'D3.check', 'file': 'bivariate/gumbel.py', 'old': "        if self.tau == 1:\n            raise ValueError(\"Tau value can't be 1\")\n\n", 'new': ""},
]
REWRITES = [
    {'name': 'range-method-spelling', 'file': B, 'old': "if min(u) < 0.0 or max(u) > 1.0:", 'new': "if u.min() < 0 or 1 < u.max():"},
    {'name': 'kendalltau-statistic-attr', 'file': B, 'old': "self.tau = stats.kendalltau(U, V)[0]", 'new': "self.tau = stats.kendalltau(U, V).statistic"},
    {'name': 'interval-two-compares', 'file': B, 'old': "if (not lower <= self.theta <= upper) or (self.theta in self.invalid_thetas):", 'new': "if self.theta < lower or self.theta > upper or self.theta in self.invalid_thetas:"},
    {'name': 'frank-item', 'file': 'bivariate/frank.py', 'old': "        alpha = np.ravel(alpha)[0]  # least_squares passes a one-element vector\n", 'new': "        alpha = alpha[0]\n"},
]
