"""Self-validation corpus for C02."""
G = 'multivariate/gaussian.py'
MUTANTS = [
    {'name': 'nan-to-num-removed', 'rule': 'D1.chain', 'file': G, 'old': "        correlation = np.nan_to_num(correlation, nan=0.0)\n", 'new': ""},
    {'name': 'nan-to-one', 'rule': 'D1.chain', 'file': G, 'old': "np.nan_to_num(correlation, nan=0.0)", 'new': "np.nan_to_num(correlation, nan=1.0)"},
    {'name': 'ridge-removed', 'rule': 'D2.ridge', 'file': G, 'old': "            correlation = correlation + np.identity(correlation.shape[0]) * EPSILON\n", 'new': "            pass\n"},
    {'name': 'ridge-guard-inverted', 'rule': 'D2.ridge', 'file': G, 'old': "if np.linalg.cond(correlation) > 1.0 / sys.float_info.epsilon:", 'new': "if np.linalg.cond(correlation) < 1.0 / sys.float_info.epsilon:"},
    {'name': 'ridge-guard-threshold-eps', 'rule': 'D2.ridge', 'file': G, 'old': "if np.linalg.cond(correlation) > 1.0 / sys.float_info.epsilon:", 'new': "if np.linalg.cond(correlation) > sys.float_info.max:"},
    {'name': 'clip-dropped', 'rule': 'D3.scores', 'file': G, 'old': "U.append(univariate.cdf(column.to_numpy()).clip(EPSILON, 1 - EPSILON))", 'new': "U.append(univariate.cdf(column.to_numpy()))"},
    {'name': 'clip-to-closed-interval', 'rule': 'D3.scores', 'file': G, 'old': ".clip(EPSILON, 1 - EPSILON))", 'new': ".clip(0, 1))"},
    {'name': 'pdf-instead-of-cdf', 'rule': 'D3.scores', 'file': G, 'old': "U.append(univariate.cdf(column.to_numpy()).clip(EPSILON, 1 - EPSILON))", 'new': "U.append(univariate.pdf(column.to_numpy()).clip(EPSILON, 1 - EPSILON))"},
    {'name': 'labels-sorted', 'rule': 'D4.labels', 'file': G, 'old': "return pd.DataFrame(correlation, index=self.columns, columns=self.columns)", 'new': "return pd.DataFrame(correlation, index=sorted(self.columns), columns=sorted(self.columns))"},
    {'name': 'correlation-before-univariates', 'rule': 'D5.order', 'file': G, 'old': "        self.columns = columns\n        self.univariates = univariates\n\n        LOGGER.debug('Computing correlation.')\n        self.correlation = self._get_correlation(X)\n", 'new': "        self.columns = columns\n\n        LOGGER.debug('Computing correlation.')\n        self.correlation = self._get_correlation(X)\n        self.univariates = univariates\n"},
    {'name': 'corr-of-raw-data', 'rule': 'D1.chain', 'file': G, 'old': "        correlation = pd.DataFrame(data=result).corr().to_numpy()", 'new': "        correlation = pd.DataFrame(data=X).corr().to_numpy()"},
    {'name': 'transform-iterates-X-columns', 'rule': 'D4.labels', 'file': G, 'old': "        for column_name, univariate in zip(self.columns, self.univariates):\n            if column_name in X:", 'new': "        for column_name, univariate in zip(X.columns, self.univariates):\n            if column_name in X:"},
    {'name': 'ridge-subtracted', 'rule': 'D2.ridge', 'file': G, 'old': "correlation = correlation + np.identity(correlation.shape[0]) * EPSILON", 'new': "correlation = correlation - np.identity(correlation.shape[0]) * EPSILON"},
    {'name': 'ridge-divided-by-epsilon', 'rule': 'D2.ridge', 'file': G, 'old': "correlation = correlation + np.identity(correlation.shape[0]) * EPSILON", 'new': "correlation = correlation + np.identity(correlation.shape[0]) / EPSILON"},
    {'name': 'ridge-of-one', 'rule': 'D2.ridge', 'file': G, 'old': "correlation = correlation + np.identity(correlation.shape[0]) * EPSILON", 'new': "correlation = correlation + np.identity(correlation.shape[0])"},
    {'name': 'ridge-guard-threshold-inf', 'rule': 'D2.ridge', 'file': G, 'old': "if np.linalg.cond(correlation) > 1.0 / sys.float_info.epsilon:", 'new': "if np.linalg.cond(correlation) > 1.0 / sys.float_info.epsilon ** 2:"},
]
REWRITES = [
    {'name': 'ridge-literal-size', 'file': G, 'old': "correlation = correlation + np.identity(correlation.shape[0]) * EPSILON", 'new': "correlation = correlation + np.identity(correlation.shape[0]) * 1e-7"},
    {'name': 'guard-lower-threshold', 'file': G, 'old': "if np.linalg.cond(correlation) > 1.0 / sys.float_info.epsilon:", 'new': "big = 1e12\n        if np.linalg.cond(correlation) > big:"},
    {'name': 'flipped-comparison', 'file': G, 'old': "if np.linalg.cond(correlation) > 1.0 / sys.float_info.epsilon:", 'new': "if 1.0 / sys.float_info.epsilon < np.linalg.cond(correlation):"},
    {'name': 'ridge-commuted', 'file': G, 'old': "correlation = correlation + np.identity(correlation.shape[0]) * EPSILON", 'new': "correlation = EPSILON * np.identity(correlation.shape[0]) + correlation"},
    {'name': 'temp-for-scores-frame', 'file': G, 'old': "        correlation = pd.DataFrame(data=result).corr().to_numpy()", 'new': "        frame = pd.DataFrame(data=result)\n        correlation = frame.corr().to_numpy()"},
    {'name': 'np-clip-function', 'file': G, 'old': "U.append(univariate.cdf(column.to_numpy()).clip(EPSILON, 1 - EPSILON))", 'new': "U.append(np.clip(univariate.cdf(column.to_numpy()), EPSILON, 1 - EPSILON))"},
]
