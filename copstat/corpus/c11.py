"""Self-validation corpus for C11."""
I = 'bivariate/__init__.py'
MUTANTS = [
    {'name': 'guard-strict', 'rule': 'D2.early', 'file': I, 'old': "    if frank.tau <= 0:\n        return frank", 'new': "    if frank.tau < 0:\n        return frank"},
    {'name': 'guard-after-candidates', 'rule': 'D2.early', 'file': I, 'old': "    if frank.tau <= 0:\n        return frank\n\n    copula_candidates = [frank]\n", 'new': "    copula_candidates = [frank]\n"},
    {'name': 'argmin-score', 'rule': 'D4.polarity', 'file': I, 'old': "selected_copula = np.argmax(score.to_numpy())", 'new': "selected_copula = np.argmin(score.to_numpy())"},
    {'name': 'rank-ascending', 'rule': 'D4.polarity', 'file': I, 'old': "    score_left = pd.Series(diff_left).rank(ascending=False)\n    score_right = pd.Series(diff_right).rank(ascending=False)\n    score_both = pd.Series(diff_both).rank(ascending=False)", 'new': "    score_left = pd.Series(diff_left).rank(ascending=True)\n    score_right = pd.Series(diff_right).rank(ascending=True)\n    score_both = pd.Series(diff_both).rank(ascending=True)"},
    {'name': 'one-rank-ascending', 'rule': 'D4.polarity', 'file': I, 'old': "score_right = pd.Series(diff_right).rank(ascending=False)", 'new': "score_right = pd.Series(diff_right).rank()"},
    {'name': 'tau-not-shared', 'rule': 'D1.state', 'file': I, 'old': "            copula.tau = frank.tau\n", 'new': ""},
    {'name': 'theta-not-computed', 'rule': 'D1.state', 'file': I, 'old': "            copula._compute_theta()\n", 'new': ""},
    {'name': 'append-before-calibration', 'rule': 'D1.state', 'file': I, 'old': "            copula.tau = frank.tau\n            copula._compute_theta()\n            copula_candidates.append(copula)\n", 'new': "            copula_candidates.append(copula)\n            copula.tau = frank.tau\n            copula._compute_theta()\n"},
    {'name': 'frank-not-fitted', 'rule': 'D', 'file': I, 'old': "    frank = Frank()\n    frank.fit(X)\n", 'new': "    frank = Frank()\n    frank.tau = 0.5\n    frank.theta = 1.0\n"},
    {'name': 'handler-too-wide-returns', 'rule': 'D1.state', 'file': I, 'old': "        except ValueError:\n            pass", 'new': "        except ValueError:\n            return frank"},
    {'name': 'select-from-fixed-list', 'rule': 'D3.index', 'file': I, 'old': "    return copula_candidates[selected_copula]", 'new': "    return [frank, Clayton(), Gumbel()][selected_copula]"},
    {'name': 'curves-skip-candidate', 'rule': 'D3.index', 'file': I, 'old': "    for copula in copulas:\n        left.append(", 'new': "    for copula in copulas:\n        if copula.theta > 100:\n            continue\n        left.append("},
    {'name': 'random-tie-break', 'rule': 'D5.determ', 'file': I, 'old': "    score = score_left + score_right + score_both\n", 'new': "    score = score_left + score_right + score_both + np.random.uniform(0, 1e-9, len(score_both))\n"},
    {'name': 'deprecated-drops-arg', 'rule': 'D6.forward', 'file': 'bivariate/base.py', 'old': "        return select_copula(X)", 'new': "        return select_copula(X[:1000])"},
    {'name': 'only-clayton', 'rule': 'D1.state', 'file': I, 'old': "    for copula_class in [Clayton, Gumbel]:", 'new': "    for copula_class in [Clayton]:"},
    {'name': 'rank-by-argsort', 'rule': 'D3.index', 'file': 'bivariate/__init__.py', 'count': 1,
     'old': "    score_left = pd.Series(diff_left).rank(ascending=False)", 'new': "    score_left = len(diff_left) - np.argsort(np.asarray(diff_left))"},
    {'name': 'interior-rows-only', 'rule': 'D1.state', 'file': I, 'old': '    frank = Frank()\n    frank.fit(X)', 'new': '    X = X[np.logical_and(X > 0, X < 1).all(axis=1)]\n    frank = Frank()\n    frank.fit(X)'},
    {'name': 'tail-signature-swapped-caller-kept', 'rule': 'D3.index', 'file': I, 'old': 'def _compute_tail(c, z):', 'new': 'def _compute_tail(z, c):'},
]
REWRITES = [
    {'name': 'argmax-method', 'file': I, 'old': "selected_copula = np.argmax(score.to_numpy())", 'new': "selected_copula = score.to_numpy().argmax()"},
    {'name': 'tuple-of-classes', 'file': I, 'old': "    for copula_class in [Clayton, Gumbel]:", 'new': "    for copula_class in (Clayton, Gumbel):"},
    {'name': 'negated-distance-argmax', 'file': I, 'old': "    score = score_left + score_right + score_both\n", 'new': "    score = score_both + score_left + score_right\n"},
    {'name': 'rank-by-double-argsort', 'file': 'bivariate/__init__.py',
     'old': "    score_left = pd.Series(diff_left).rank(ascending=False)", 'new': "    score_left = len(diff_left) - np.argsort(np.argsort(np.asarray(diff_left)))"},
    {'name': 'tail-signature-swapped-with-caller', 'edits': [{'file': I, 'old': 'def _compute_tail(c, z):', 'new': 'def _compute_tail(z, c):'}, {'file': I, 'old': '_compute_tail(copula.cumulative_distribution(X_right), right_tail)', 'new': '_compute_tail(right_tail, copula.cumulative_distribution(X_right))'}]},
]
