"""E6 (part) - small idiom matchers shared by the rule modules."""

import ast

from .model import call_name, is_self_attr, short, walk_no_nested


# ------------------------------------------------------------------ path enumeration
class Path:
    def __init__(self, conds, stmts, end):
        self.conds = conds  # [(test expr, polarity)]
        self.stmts = stmts  # simple statements executed, in order
        self.end = end  # Return / Raise node, or None for falling off the end

    def __repr__(self):
        c = ' & '.join(('' if pol else 'not ') + short(t, 40) for t, pol in self.conds)
        return f'<Path [{c}] -> {short(self.end, 40) if self.end is not None else "fallthrough"}>'


def enum_paths(stmts, limit=4000):
    """Acyclic paths through structured code; a loop body is taken zero times or once.
    try: the body is assumed to complete (handlers are enumerated as separate paths from the
    try entry).  Returns a list of Path."""
    out = []

    def go(todo, conds, done):
        # todo: list of statements still to run (a stack of lists flattened lazily)
        if len(out) > limit:
            return
        i = 0
        while i < len(todo):
            s = todo[i]
            rest = todo[i + 1:]
            if isinstance(s, (ast.Return, ast.Raise)):
                out.append(Path(conds, done, s))
                return
            if isinstance(s, ast.If):
                go(list(s.body) + rest, conds + [(s.test, True)], list(done))
                go(list(s.orelse) + rest, conds + [(s.test, False)], list(done))
                return
            if isinstance(s, (ast.For, ast.AsyncFor, ast.While)):
                hdr = s.iter if not isinstance(s, ast.While) else s.test
                body = [b for b in s.body]
                go(_strip_loop_jumps(body) + list(s.orelse) + rest, conds + [(hdr, True)], done + [_Hdr(s)])
                go(list(s.orelse) + rest, conds + [(hdr, False)], done + [_Hdr(s)])
                return
            if isinstance(s, (ast.With, ast.AsyncWith)):
                go(list(s.body) + rest, conds, done + [_Hdr(s)])
                return
            if isinstance(s, ast.Try):
                go(list(s.body) + list(s.orelse) + list(s.finalbody) + rest, conds, list(done))
                for h in s.handlers:
                    go(list(h.body) + list(s.finalbody) + rest, conds + [(h, True)], list(done))
                return
            if isinstance(s, (ast.Break, ast.Continue)):
                i += 1
                continue
            done = done + [s]
            i += 1
        out.append(Path(conds, done, None))

    go(list(stmts), [], [])
    return out


class _Hdr:
    """Marks the header of a compound statement inside Path.stmts."""

    def __init__(self, node):
        self.node = node
        self.lineno = node.lineno


def _strip_loop_jumps(body):
    return body


# ----------------------------------------------------------------------- guards
def guard_chain(node, stop):
    """[(test, polarity)] of the If/While/IfExp conditions enclosing node, innermost last."""
    out = []
    child = node
    p = getattr(node, '_parent', None)
    while p is not None and p is not stop:
        if isinstance(p, ast.If) or isinstance(p, ast.While):
            if child in p.body:
                out.append((p.test, True))
            elif child in p.orelse:
                out.append((p.test, False))
        elif isinstance(p, ast.IfExp):
            if child is p.body:
                out.append((p.test, True))
            elif child is p.orelse:
                out.append((p.test, False))
        child = p
        p = getattr(p, '_parent', None)
    out.reverse()
    return out


def enclosing(node, types, stop=None):
    p = getattr(node, '_parent', None)
    while p is not None and p is not stop:
        if isinstance(p, types):
            return p
        p = getattr(p, '_parent', None)
    return None


def enclosing_loops(node, stop=None):
    out = []
    child = node
    p = getattr(node, '_parent', None)
    while p is not None and p is not stop:
        if isinstance(p, (ast.For, ast.While)) and child in p.body:
            out.append(p)
        elif isinstance(p, (ast.ListComp, ast.GeneratorExp, ast.SetComp, ast.DictComp)):
            out.append(p)
        child = p
        p = getattr(p, '_parent', None)
    return out


def in_body_of(node, compound, field='body'):
    """Is node (transitively) inside compound.<field>?"""
    child = node
    p = getattr(node, '_parent', None)
    while p is not None:
        if p is compound:
            return child in getattr(compound, field)
        child = p
        p = getattr(p, '_parent', None)
    return False


# ------------------------------------------------------------------- def-use
def assignments(fnnode, name):
    """Assign statements (and for/with/comprehension bindings) that bind local `name`."""
    out = []
    for n in walk_no_nested(fnnode):
        if isinstance(n, ast.Assign):
            for t in n.targets:
                if _binds(t, name):
                    out.append(n)
        elif isinstance(n, (ast.AugAssign, ast.AnnAssign)):
            if _binds(n.target, name):
                out.append(n)
        elif isinstance(n, (ast.For, ast.AsyncFor)):
            if _binds(n.target, name):
                out.append(n)
        elif isinstance(n, ast.comprehension):
            if _binds(n.target, name):
                out.append(n)
        elif isinstance(n, ast.withitem):
            if n.optional_vars is not None and _binds(n.optional_vars, name):
                out.append(n)
        elif isinstance(n, ast.NamedExpr):
            if _binds(n.target, name):
                out.append(n)
        elif isinstance(n, ast.ExceptHandler) and n.name == name:
            out.append(n)
    return out


def _binds(t, name):
    if isinstance(t, ast.Name):
        return t.id == name
    if isinstance(t, (ast.Tuple, ast.List)):
        return any(_binds(e, name) for e in t.elts)
    if isinstance(t, ast.Starred):
        return _binds(t.value, name)
    return False


def single_def(fnnode, name):
    """Value expression of the only binding of `name` in the function, or None.
    For tuple unpacking returns ('unpack', value, index)."""
    defs = assignments(fnnode, name)
    if len(defs) != 1:
        return None
    d = defs[0]
    a_ = getattr(fnnode, 'args', None)
    if a_ is not None and name in {x.arg for x in a_.posonlyargs + a_.args + a_.kwonlyargs} | {getattr(a_.vararg, 'arg', None), getattr(a_.kwarg, 'arg', None)} \
            and d not in getattr(fnnode, 'body', ()):
        return None        # a parameter re-bound under a condition has two reaching definitions
    if isinstance(d, ast.Assign) and len(d.targets) == 1:
        t = d.targets[0]
        if isinstance(t, ast.Name):
            return d.value
        if isinstance(t, (ast.Tuple, ast.List)):
            for i, e in enumerate(t.elts):
                if isinstance(e, ast.Name) and e.id == name:
                    if isinstance(d.value, (ast.Tuple, ast.List)) and len(d.value.elts) == len(t.elts):
                        return d.value.elts[i]
                    return ('unpack', d.value, i)
    return None


def names_in(node):
    return {n.id for n in ast.walk(node) if isinstance(n, ast.Name)}


def depends_on(fnnode, expr, target_names, depth=6):
    """Does expr (through single-assignment local temporaries) mention one of target_names?"""
    seen = set()
    todo = [(expr, 0)]
    while todo:
        e, d = todo.pop()
        if isinstance(e, tuple):
            e = e[1]
        for n in ast.walk(e):
            if isinstance(n, ast.Name):
                if n.id in target_names:
                    return True
                if n.id not in seen and d < depth:
                    seen.add(n.id)
                    for a in assignments(fnnode, n.id):
                        v = getattr(a, 'value', None) or getattr(a, 'iter', None)
                        if v is not None:
                            todo.append((v, d + 1))
                    # in-place updates through method calls on the name: x.set_state(y)
                    for c in walk_no_nested(fnnode):
                        if isinstance(c, ast.Call) and isinstance(c.func, ast.Attribute) \
                                and isinstance(c.func.value, ast.Name) and c.func.value.id == n.id:
                            for a in list(c.args) + [k.value for k in c.keywords]:
                                todo.append((a, d + 1))
    return False


def stmt_index_path(node, root):
    """Position of the statement containing node as a tuple of (field, index) from root, for
    ordering comparisons inside one statement list."""
    chain = []
    child = node
    p = getattr(node, '_parent', None)
    while p is not None:
        for field in ('body', 'orelse', 'finalbody', 'handlers'):
            lst = getattr(p, field, None)
            if isinstance(lst, list) and child in lst:
                chain.append((id(p), field, lst.index(child)))
                break
        if p is root:
            break
        child = p
        p = getattr(p, '_parent', None)
    chain.reverse()
    return chain


def same_block_before(a, b):
    """a and b are statements in the same statement list and a comes first."""
    pa, pb = getattr(a, '_parent', None), getattr(b, '_parent', None)
    if pa is None or pa is not pb:
        return False
    for field in ('body', 'orelse', 'finalbody'):
        lst = getattr(pa, field, None)
        if isinstance(lst, list) and a in lst and b in lst:
            return lst.index(a) < lst.index(b)
    return False


def stmt_of(node):
    n = node
    while n is not None and not isinstance(n, ast.stmt):
        n = getattr(n, '_parent', None)
    return n


def raises(stmts, exc_names):
    """Does the statement list end in `raise <one of exc_names>(...)`?"""
    for s in stmts:
        if isinstance(s, ast.Raise) and s.exc is not None:
            e = s.exc.func if isinstance(s.exc, ast.Call) else s.exc
            nm = e.id if isinstance(e, ast.Name) else (e.attr if isinstance(e, ast.Attribute) else None)
            if nm in exc_names:
                return True
    return False


def only_raises(fn, names=('NotImplementedError',)):
    body = fn.body()
    return len(body) >= 1 and all(isinstance(s, (ast.Raise, ast.Pass)) or (
        isinstance(s, ast.Expr) and isinstance(s.value, ast.Constant)) for s in body) and any(
        isinstance(s, ast.Raise) for s in body)


def is_none_test(test):
    """(`x is None` -> (x, True)), (`x is not None` -> (x, False)), (`not x`/`x` -> None); `not (x is None)` and
    `None is x` are the same tests."""
    flip = False
    while isinstance(test, ast.UnaryOp) and isinstance(test.op, ast.Not) and isinstance(test.operand, (ast.Compare, ast.UnaryOp)):
        test, flip = test.operand, not flip
    if isinstance(test, ast.Compare) and len(test.ops) == 1 and isinstance(test.left, ast.Constant) and test.left.value is None \
            and isinstance(test.ops[0], (ast.Is, ast.IsNot, ast.Eq, ast.NotEq)):
        test = ast.copy_location(ast.Compare(left=test.comparators[0], ops=test.ops, comparators=[test.left]), test)
    if flip:
        r = is_none_test(test)
        return (r[0], not r[1]) if r is not None else None
    if isinstance(test, ast.Compare) and len(test.ops) == 1 and isinstance(test.comparators[0], ast.Constant) \
            and test.comparators[0].value is None:
        if isinstance(test.ops[0], ast.Is):
            return test.left, True
        if isinstance(test.ops[0], ast.IsNot):
            return test.left, False
    return None


# ------------------------------------------------------------------ shape-robust helpers
def resolve(fnnode, e, depth=4):
    """Follow single-assignment local temporaries: name -> its value expression."""
    n = 0
    while isinstance(e, ast.Name) and n < depth:
        d = single_def(fnnode, e.id)
        if not isinstance(d, ast.AST):
            break
        e = d
        n += 1
    return e


def attr_stores(fn, attr, selfname=None):
    """[(stmt, value expr or None)] for every store into <self>.<attr> in fn, including tuple targets
    `self.a, self.b = x, y` (value = matching element) and `self.a, self.b = f()` (value = ('unpack', call, i))."""
    sn = selfname or fn.self_name
    out = []
    for s in walk_no_nested(fn.node):
        if isinstance(s, ast.Assign):
            for t in s.targets:
                if isinstance(t, ast.Attribute) and isinstance(t.value, ast.Name) and (sn is None or t.value.id == sn) and t.attr == attr:
                    out.append((s, s.value))
                elif isinstance(t, (ast.Tuple, ast.List)):
                    for i, e in enumerate(t.elts):
                        if isinstance(e, ast.Attribute) and isinstance(e.value, ast.Name) and (sn is None or e.value.id == sn) and e.attr == attr:
                            if isinstance(s.value, (ast.Tuple, ast.List)) and len(s.value.elts) == len(t.elts):
                                out.append((s, s.value.elts[i]))
                            elif not any(isinstance(x, ast.Starred) for x in t.elts[:i]):
                                out.append((s, ('unpack', s.value, i)))
                            else:
                                out.append((s, None))
        elif isinstance(s, (ast.AugAssign, ast.AnnAssign)) and isinstance(s.target, ast.Attribute) \
                and isinstance(s.target.value, ast.Name) and (sn is None or s.target.value.id == sn) and s.target.attr == attr:
            out.append((s, getattr(s, 'value', None)))
    return out


def private_closure(ctx, fn, concrete=None, limit=12):
    """fn plus the private helpers (leading underscore, same class hierarchy or same module) it calls, transitively."""
    out, todo = [], [fn]
    seen = set()
    while todo and len(out) < limit:
        f = todo.pop(0)
        if f.qualname in seen:
            continue
        seen.add(f.qualname)
        out.append(f)
        for call in [n for n in walk_no_nested(f.node) if isinstance(n, ast.Call)]:
            for t in ctx.cg.targets(f, call, concrete):
                if t.kind == 'proj' and not t.how.startswith('decorator') and t.how != 'by method name':
                    g = t.fn
                    if g.name.startswith('_') and not g.name.startswith('__') and g.outer is None \
                            and (g.module is fn.module or (g.cls is not None and fn.cls is not None and (g.cls in fn.cls.mro() or fn.cls in g.cls.mro()))):
                        todo.append(g)
    return out


# ------------------------------------------------------------------ row subsets (positive evidence only)
_MASK_CALLS = {'logical_and', 'logical_or', 'logical_not', 'logical_xor', 'isnan', 'isfinite', 'isinf', 'isclose', 'isin', 'notna', 'notnull', 'isna', 'isnull',
               'duplicated', 'between'}
_ROW_METHODS = {'dropna': 'the rows without missing values', 'head': 'the leading rows', 'tail': 'the trailing rows',
                'drop_duplicates': 'the distinct rows', 'query': 'the rows matching a query', 'nlargest': 'the largest rows',
                'nsmallest': 'the smallest rows', 'truncate': 'a truncated range of rows'}


def is_row_mask(fnnode, e, depth=4):
    """Is `e` recognisably a boolean row mask (comparison, mask combinator, isnan-like test, .all/.any(axis=1) of one)?"""
    if depth < 0:
        return False
    if isinstance(e, ast.Name):
        d = single_def(fnnode, e.id)
        return isinstance(d, ast.AST) and is_row_mask(fnnode, d, depth - 1)
    if isinstance(e, ast.Compare):
        return True
    if isinstance(e, ast.UnaryOp) and isinstance(e.op, ast.Invert):
        return is_row_mask(fnnode, e.operand, depth - 1)
    if isinstance(e, ast.BinOp) and isinstance(e.op, (ast.BitAnd, ast.BitOr, ast.BitXor)):
        return is_row_mask(fnnode, e.left, depth - 1) and is_row_mask(fnnode, e.right, depth - 1)
    if isinstance(e, ast.Call) and isinstance(e.func, ast.Attribute):
        if e.func.attr in _MASK_CALLS:
            return True
        if e.func.attr in ('all', 'any') and is_row_mask(fnnode, e.func.value, depth - 1):
            return True
    return False


def _nontrivial_slice(s):
    return isinstance(s, ast.Slice) and (s.lower is not None or s.upper is not None or s.step is not None)


def row_subset_of(fnnode, e):
    """(base expression, how) when `e` recognisably selects a subset (or a thinning) of the rows of `base`, else None.
    Column selections (`X[:, k]`, `X[name]`) and full slices are not row subsets."""
    if isinstance(e, ast.Subscript):
        base, s = e.value, e.slice
        if isinstance(base, ast.Attribute) and base.attr in ('iloc', 'loc'):
            base = base.value
        first = s.elts[0] if isinstance(s, ast.Tuple) and s.elts else s
        if _nontrivial_slice(first):
            return base, 'a slice of the rows'
        if is_row_mask(fnnode, first):
            return base, 'the rows selected by a boolean mask'
        return None
    if isinstance(e, ast.Call) and isinstance(e.func, ast.Attribute):
        m = e.func.attr
        if m in _ROW_METHODS:
            return e.func.value, _ROW_METHODS[m]
        if m in ('unique',) and e.args and any(k.arg == 'axis' for k in e.keywords):
            return e.args[0], 'the distinct rows'
        if m in ('compress', 'delete', 'extract') and len(e.args) >= 2:
            arr = e.args[1] if m in ('compress', 'extract') else e.args[0]
            return arr, f'numpy.{m} of the rows'
        if m == 'choice' and e.args and not isinstance(e.args[0], ast.Constant):
            return e.args[0], 'a random subsample of the rows'
    return None


def row_subsets_reaching(fnnode, names, before=None):
    """[(stmt, target name, base name, how)] for every statement of the function that re-binds one of `names` (or binds a new name
    from one of them) to a recognisable row subset.  `before`: only statements that start above this node's line."""
    out = []
    names = set(names)
    grew = True
    seen = set()
    while grew:
        grew = False
        for st in walk_no_nested(fnnode):
            if not isinstance(st, ast.Assign) or len(st.targets) != 1 or id(st) in seen:
                continue
            if before is not None and st.lineno >= before.lineno:
                continue
            pairs = []
            t = st.targets[0]
            if isinstance(t, ast.Name):
                pairs.append((t.id, st.value))
            elif isinstance(t, (ast.Tuple, ast.List)) and isinstance(st.value, (ast.Tuple, ast.List)) and len(t.elts) == len(st.value.elts):
                pairs += [(a.id, b) for a, b in zip(t.elts, st.value.elts) if isinstance(a, ast.Name)]
            for tn, val in pairs:
                rs = row_subset_of(fnnode, val)
                if rs is None:
                    continue
                base, how = rs
                while isinstance(base, ast.Call) and isinstance(base.func, ast.Attribute) and base.func.attr in ('copy', 'to_numpy', 'astype') or isinstance(base, ast.Attribute) and base.attr == 'values':
                    base = base.func.value if isinstance(base, ast.Call) else base.value
                if isinstance(base, ast.Name) and base.id in names:
                    seen.add(id(st))
                    out.append((st, tn, base.id, how))
                    if tn not in names:
                        names.add(tn)
                        grew = True
    return out
