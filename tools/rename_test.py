import sys,re,os; sys.path.insert(0,'/verif')
from copstat.engine import Ctx, run_property, PROPERTIES
from copstat.model import AnalysisError, PrivateAnchorMissing
import ast
# every private method / function of the package, renamed one at a time
names=set()
for dp,_,fns in os.walk('/repo/copulas'):
    for fn in fns:
        if fn.endswith('.py'):
            t=ast.parse(open(os.path.join(dp,fn)).read())
            for n in ast.walk(t):
                if isinstance(n,(ast.FunctionDef,)) and n.name.startswith('_') and not n.name.startswith('__'):
                    names.add(n.name)
names=sorted(names)
print(len(names),'private names')
from concurrent.futures import ProcessPoolExecutor
def one(a):
    b=a+'_renamed'
    ov={}
    for dp,_,fns in os.walk('/repo/copulas'):
        for fn in fns:
            if fn.endswith('.py'):
                full=os.path.join(dp,fn); src=open(full).read()
                if a in src: ov[os.path.relpath(full,'/repo')]=re.sub(r'(?<![A-Za-z0-9_])'+re.escape(a)+r'(?![A-Za-z0-9_])',b,src)
    try:
        ctx=Ctx(overlay=ov)
    except Exception as e:
        return a,[('model',str(e)[:80])]
    bad=[]
    for pid in PROPERTIES:
        try:
            code,rep=run_property(pid,'quick',write=False,quiet=True,ctx=ctx)
            if code!=0: bad.append((pid,'exit',code,[(o.rule,o.construct[:40]) for o in rep.obls if o.status=='violation' and not getattr(o,'known',False)][:4]))
        except AnalysisError as e:
            bad.append((pid,'ANALYSIS-ERROR',str(e)[:90]))
        except Exception as e:
            import traceback
            bad.append((pid,'INTERNAL',type(e).__name__,str(e)[:80], traceback.format_exc().splitlines()[-3].strip()[:100]))
    return a,bad
if __name__=='__main__':
    with ProcessPoolExecutor(6) as ex:
        for a,bad in ex.map(one,names):
            if bad: print(a,bad)
    print('done')
