import sys, collections
sys.path.insert(0,'/verif'); sys.path.insert(0,'/verif/tools')
import batch
from copstat.engine import Ctx, run_property
rid, pid = sys.argv[1], sys.argv[2]
ov = batch.overlay_of(f'/verif/refactors/{rid}/patch.diff')
base, mut = Ctx(), Ctx(overlay=ov)
_c, r0 = run_property(pid, 'quick', write=False, quiet=True, ctx=base)
_c, r1 = run_property(pid, 'quick', write=False, quiet=True, ctx=mut)
c0 = collections.Counter((o.rule, o.status) for o in r0.obls); c1 = collections.Counter((o.rule, o.status) for o in r1.obls)
for k in sorted(set(c0) | set(c1)):
    if c0[k] != c1[k]:
        print(k, c0[k], '->', c1[k])
for o in r1.obls:
    if o.status == 'undecided' and (o.rule, o.func, o.construct) not in {(x.rule, x.func, x.construct) for x in r0.obls if x.status == 'undecided'}:
        print('  UND', o.rule, o.func, o.construct, '--', o.msg[:150])
