#!/venv/bin/python
"""Manage seeded changes under /verif/seeded/<id>/ (patch.diff, demo.py, meta.json).

  seeded.py import <src dir> <id>     copy an agent's _out/mK directory
  seeded.py verify <id> [...]         scratch worktree: tests pass + demo fails with patch; demo passes without
  seeded.py detect <id>|all           apply to /repo, run every quick check, record which rules fire, undo
"""
import json
import os
import re
import shutil
import subprocess
import sys

VERIF = '/verif'
SEEDED = os.path.join(VERIF, 'seeded')
PY = '/venv/bin/python'


def sh(cmd, cwd=None, env=None, timeout=1800):
    e = dict(os.environ)
    if env:
        e.update(env)
    p = subprocess.run(cmd, shell=True, cwd=cwd, env=e, capture_output=True, text=True, timeout=timeout)
    return p.returncode, p.stdout + p.stderr


def load_meta(i):
    with open(os.path.join(SEEDED, i, 'meta.json')) as fh:
        return json.load(fh)


def save_meta(i, m):
    with open(os.path.join(SEEDED, i, 'meta.json'), 'w') as fh:
        json.dump(m, fh, indent=1)


def cmd_import(src, i):
    dst = os.path.join(SEEDED, i)
    os.makedirs(dst, exist_ok=True)
    for f in ('patch.diff', 'demo.py', 'meta.json'):
        shutil.copy(os.path.join(src, f), os.path.join(dst, f))
    m = load_meta(i)
    m['id'] = i
    m['origin'] = 'independent sub-agent given only the property text and a scratch worktree'
    save_meta(i, m)
    print('imported', i)


def cmd_verify(i):
    d = os.path.join(SEEDED, i)
    wt = f'/tmp/sw_{i}'
    sh(f'git -C /repo worktree remove --force {wt}')
    rc, out = sh(f'git -C /repo worktree add -q --detach {wt} HEAD')
    if rc:
        print(out)
        return
    try:
        env = {'PYTHONPATH': wt}
        rc0, o0 = sh(f'{PY} {d}/demo.py', cwd=wt, env=env, timeout=300)
        rc, out = sh(f'git apply {d}/patch.diff', cwd=wt)
        if rc:
            print('PATCH DOES NOT APPLY', out)
            return
        rc1, o1 = sh(f'{PY} {d}/demo.py', cwd=wt, env=env, timeout=300)
        rct, ot = sh(f'{PY} -m pytest -q -p no:cacheprovider --timeout=900 tests 2>&1 | tail -3', cwd=wt, env=env)
        m = re.search(r'(\d+) passed', ot)
        failed = re.search(r'(\d+) failed', ot)
        m2 = load_meta(i)
        m2['verified'] = {
            'demo_exit_without_patch': rc0, 'demo_exit_with_patch': rc1,
            'tests_passed_with_patch': int(m.group(1)) if m else None,
            'tests_failed_with_patch': int(failed.group(1)) if failed else 0,
            'ran': f'worktree of /repo HEAD; PYTHONPATH=<wt> {PY} demo.py before/after `git apply patch.diff`; '
                   f'PYTHONPATH=<wt> {PY} -m pytest -q -p no:cacheprovider --timeout=900 tests',
            'ok': rc0 == 0 and rc1 != 0 and bool(m) and int(m.group(1)) >= 294 and not failed,
        }
        save_meta(i, m2)
        print(i, 'verified' if m2['verified']['ok'] else 'NOT VERIFIED', m2['verified'])
        if not m2['verified']['ok']:
            print(o0[-300:], o1[-300:], ot[-300:])
    finally:
        sh(f'git -C /repo worktree remove --force {wt}')


def cmd_detect(i):
    d = os.path.join(SEEDED, i)
    rc, out = sh('git -C /repo status --porcelain')
    if out.strip():
        print('/repo is not clean; refusing')
        return
    rc, out = sh(f'git -C /repo apply {d}/patch.diff')
    if rc:
        print('patch does not apply to /repo', out)
        return
    try:
        claimed = [c['property_id'] for c in json.load(open(os.path.join(VERIF, 'MANIFEST.json')))['checks']]
        out = ''
        for pid in claimed:
            rc, o = sh(f'./check {pid} --tier quick', cwd=VERIF)
            out += o
    finally:
        sh('git -C /repo checkout -- .')
        sh('git -C /repo clean -fdq copulas')
    hits = []
    cur = None
    for line in out.splitlines():
        if line.startswith('VIOLATION property='):
            cur = line.split('property=')[1].split()[0]
        elif line.strip().startswith('rule=') and cur:
            hits.append(f'{cur}:{line.strip().split()[0][5:]}')
        elif line.startswith('ANALYSIS-ERROR'):
            hits.append('ANALYSIS-ERROR ' + line[:120])
    m = load_meta(i)
    m['detected_by'] = sorted(set(hits))
    save_meta(i, m)
    # restore evidence files of the clean tree
    for pid in claimed:
        sh(f'./check {pid} --tier quick', cwd=VERIF)
    print(i, 'DETECTED' if hits else 'MISSED', sorted(set(hits)))


if __name__ == '__main__':
    a = sys.argv[1:]
    if a[0] == 'import':
        cmd_import(a[1], a[2])
    elif a[0] == 'verify':
        for i in a[1:]:
            cmd_verify(i)
    elif a[0] == 'detect':
        ids = sorted(os.listdir(SEEDED)) if a[1] == 'all' else a[1:]
        for i in ids:
            if os.path.isdir(os.path.join(SEEDED, i)):
                cmd_detect(i)
