#!/venv/bin/python
"""Robustness test of the rules (development aid, not a registered check): every local variable of every function of
/repo/copulas is renamed (suffix `_q`), one function at a time and all at once, as an in-memory overlay; every check must
stay silent.  A rule that finds its subject by the *name* of a local would raise an alarm or an analysis error here.

Locals = names stored in a function body that are neither parameters nor declared global/nonlocal; the renaming covers the
whole subtree of the function (closures of nested functions read the outer locals)."""
import ast
import os
import sys
from concurrent.futures import ProcessPoolExecutor

sys.path.insert(0, '/verif')
REPO = '/repo'


def locals_of(fn):
    params = {a.arg for a in fn.args.posonlyargs + fn.args.args + fn.args.kwonlyargs}
    if fn.args.vararg:
        params.add(fn.args.vararg.arg)
    if fn.args.kwarg:
        params.add(fn.args.kwarg.arg)
    out, banned = set(), set()
    todo = list(fn.body)
    while todo:
        n = todo.pop()
        if isinstance(n, (ast.FunctionDef, ast.AsyncFunctionDef, ast.ClassDef, ast.Lambda)):
            if not isinstance(n, ast.Lambda):
                out.discard(n.name)
                banned.add(n.name)
            continue
        if isinstance(n, (ast.Global, ast.Nonlocal)):
            banned.update(n.names)
        if isinstance(n, ast.Name) and isinstance(n.ctx, (ast.Store, ast.Del)):
            out.add(n.id)
        todo.extend(ast.iter_child_nodes(n))
    return {x for x in out if x not in params and x not in banned and not x.startswith('__')}


OPAQUE = os.environ.get('RENAME_OPAQUE', '1') != '0'


class Rename(ast.NodeTransformer):
    """Renames to names that carry no meaning (`zq0`, `zq1`, ...), so that a rule keyed on a prefix or suffix of a local name
    (`left_...`, `..._u`) loses its handle as well."""

    def __init__(self, names):
        self.names = names
        self.map = {n: (f'zq{i}' if OPAQUE else n + '_q') for i, n in enumerate(sorted(names))}

    def visit_Name(self, n):
        if n.id in self.names:
            n.id = self.map[n.id]
        return n

    def _shadowing(self, node):
        ps = {a.arg for a in node.args.posonlyargs + node.args.args + node.args.kwonlyargs}
        return ps & self.names

    def visit_FunctionDef(self, node):
        sh = self._shadowing(node)
        if sh:
            saved, self.names = self.names, self.names - sh
            self.generic_visit(node)
            self.names = saved
            return node
        return self.generic_visit(node)

    visit_Lambda = visit_FunctionDef


def variants():
    """('all', overlay) plus one overlay per function that has locals."""
    allov = {}
    per = []
    for dp, _dn, fns in os.walk(os.path.join(REPO, 'copulas')):
        for f in sorted(fns):
            if not f.endswith('.py'):
                continue
            full = os.path.join(dp, f)
            rel = os.path.relpath(full, REPO)
            src = open(full).read()
            tree = ast.parse(src)
            funcs = [n for n in ast.walk(tree) if isinstance(n, (ast.FunctionDef, ast.AsyncFunctionDef))]
            # all at once (outermost functions only: the renaming covers their nested functions)
            t2 = ast.parse(src)
            nested = {id(c) for n in ast.walk(t2) if isinstance(n, (ast.FunctionDef, ast.AsyncFunctionDef)) for c in ast.walk(n) if c is not n
                      and isinstance(c, (ast.FunctionDef, ast.AsyncFunctionDef))}
            for n in [x for x in ast.walk(t2) if isinstance(x, (ast.FunctionDef, ast.AsyncFunctionDef)) and id(x) not in nested]:
                names = locals_of(n)
                for c in ast.walk(n):
                    if c is not n and isinstance(c, (ast.FunctionDef, ast.AsyncFunctionDef)):
                        names |= set()
                if names:
                    Rename(names).visit(n)
            allov[rel] = ast.unparse(ast.fix_missing_locations(t2))
            for i, n in enumerate(funcs):
                names = locals_of(n)
                if not names:
                    continue
                t3 = ast.parse(src)
                target = [x for x in ast.walk(t3) if isinstance(x, (ast.FunctionDef, ast.AsyncFunctionDef))][i]
                Rename(names).visit(target)
                per.append((f'{rel}:{n.name}', {rel: ast.unparse(ast.fix_missing_locations(t3))}))
    return [('ALL', allov)] + per


def one(args):
    label, ov = args
    from copstat.engine import PROPERTIES, Ctx, run_property
    from copstat.model import AnalysisError
    for rel, src in ov.items():
        compile(src, rel, 'exec')
    base = one.base if hasattr(one, 'base') else None
    try:
        ctx = Ctx(overlay=ov)
    except Exception as e:
        return label, [('model', str(e)[:100])]
    bad = []
    for pid in PROPERTIES:
        try:
            code, rep = run_property(pid, 'quick', write=False, quiet=True, ctx=ctx)
            if code != 0:
                bad.append((pid, 'exit', code, [(o.rule, o.construct[:50]) for o in rep.obls if o.status == 'violation'][:6]))
        except AnalysisError as e:
            bad.append((pid, 'ANALYSIS-ERROR', str(e)[:100]))
        except Exception as e:
            import traceback
            bad.append((pid, 'INTERNAL', type(e).__name__, str(e)[:80], traceback.format_exc().splitlines()[-3].strip()[:100]))
    return label, bad


if __name__ == '__main__':
    vs = variants()
    if len(sys.argv) > 1:
        vs = [v for v in vs if any(a in v[0] for a in sys.argv[1:])]
    print(len(vs), 'variants')
    nbad = 0
    with ProcessPoolExecutor(10) as ex:
        for label, bad in ex.map(one, vs):
            if bad:
                nbad += 1
                print(label, bad)
    print('done; variants with alarms:', nbad)
