#!/venv/bin/python
"""Systematic mutation sweep over /repo/copulas (informational; not a registered check).

Generates first-order syntactic mutants of every function of the package with ast (statement deletion, comparison
flips, arithmetic operator swaps, argument swaps, constant changes, dropped .copy(), negation of conditions), runs all
twenty quick checks on each as an in-memory overlay and records which mutants produce a *new* violation.  The sweep does
not know whether a mutant breaks a property (many are equivalent, many break no listed property, many are caught by the
test suite); its purpose is to produce the list of undetected mutants per function for reading, and a coarse
sensitivity figure per file.  Output: JSON lines on stdout / --out file.

  mutsweep.py [--files bivariate/base.py,...] [--jobs 16] [--out /tmp/sweep.jsonl] [--limit N]
"""
import argparse
import ast
import copy
import json
import os
import sys
from concurrent.futures import ProcessPoolExecutor

VERIF = '/verif'
REPO = '/repo'
sys.path.insert(0, VERIF)

CMP = {ast.Lt: ast.LtE, ast.LtE: ast.Lt, ast.Gt: ast.GtE, ast.GtE: ast.Gt, ast.Eq: ast.NotEq, ast.NotEq: ast.Eq,
       ast.Is: ast.IsNot, ast.IsNot: ast.Is, ast.In: ast.NotIn, ast.NotIn: ast.In}
BIN = {ast.Add: ast.Sub, ast.Sub: ast.Add, ast.Mult: ast.Div, ast.Div: ast.Mult}


def functions(tree):
    for node in ast.walk(tree):
        if isinstance(node, (ast.FunctionDef, ast.AsyncFunctionDef)):
            yield node


def is_docstring(stmt):
    return isinstance(stmt, ast.Expr) and isinstance(stmt.value, ast.Constant) and isinstance(stmt.value.value, str)


def gen_mutants(src, rel):
    """Yield (description, mutated source)."""
    tree = ast.parse(src)
    # index nodes by a stable path so that a deepcopy can be edited at the same place
    nodes = list(ast.walk(tree))
    index = {id(n): i for i, n in enumerate(nodes)}

    def variant(edit):
        t = copy.deepcopy(tree)
        ns = list(ast.walk(t))
        if edit(ns) is False:
            return None
        ast.fix_missing_locations(t)
        try:
            return ast.unparse(t)
        except Exception:
            return None

    for fn in functions(tree):
        fname = fn.name
        for node in ast.walk(fn):
            i = index[id(node)]
            line = getattr(node, 'lineno', fn.lineno)
            where = f'{rel}:{line} {fname}'
            # statement deletion (in a body with more than one real statement)
            for field in ('body', 'orelse', 'finalbody'):
                body = getattr(node, field, None)
                if isinstance(body, list) and body and isinstance(body[0], ast.stmt):
                    real = [s for s in body if not is_docstring(s)]
                    for k, s in enumerate(body):
                        if is_docstring(s) or isinstance(s, (ast.FunctionDef, ast.ClassDef, ast.Import, ast.ImportFrom, ast.Pass)):
                            continue
                        if isinstance(s, ast.Return) and len(real) == 1:
                            continue

                        def ed(ns, i=i, field=field, k=k, real=real):
                            b = getattr(ns[i], field)
                            if len(real) == 1:
                                b[k] = ast.Pass()
                            else:
                                del b[k]
                        desc = f'{where}: delete `{ast.unparse(s).splitlines()[0][:80]}` (line {s.lineno})'
                        out = variant(ed)
                        if out:
                            yield desc, out
            if isinstance(node, ast.Compare) and len(node.ops) == 1 and type(node.ops[0]) in CMP:
                def ed(ns, i=i):
                    ns[i].ops = [CMP[type(ns[i].ops[0])]()]
                out = variant(ed)
                if out:
                    yield f'{where}: `{ast.unparse(node)[:70]}` comparison {type(node.ops[0]).__name__} -> {CMP[type(node.ops[0])].__name__}', out
            if isinstance(node, ast.BinOp) and type(node.op) in BIN:
                def ed(ns, i=i):
                    ns[i].op = BIN[type(ns[i].op)]()
                out = variant(ed)
                if out:
                    yield f'{where}: `{ast.unparse(node)[:70]}` operator {type(node.op).__name__} -> {BIN[type(node.op)].__name__}', out
            if isinstance(node, ast.UnaryOp) and isinstance(node.op, (ast.USub, ast.Not)):
                def ed(ns, i=i):
                    n = ns[i]
                    for par in ns:
                        for f, v in ast.iter_fields(par):
                            if v is n:
                                setattr(par, f, n.operand)
                                return
                            if isinstance(v, list) and n in v:
                                v[v.index(n)] = n.operand
                                return
                    return False
                out = variant(ed)
                if out:
                    yield f'{where}: `{ast.unparse(node)[:70]}` drop unary {type(node.op).__name__}', out
            if isinstance(node, ast.Call) and len(node.args) >= 2 and not any(isinstance(a, ast.Starred) for a in node.args[:2]):
                def ed(ns, i=i):
                    a = ns[i].args
                    a[0], a[1] = a[1], a[0]
                if ast.dump(node.args[0]) != ast.dump(node.args[1]):
                    out = variant(ed)
                    if out:
                        yield f'{where}: `{ast.unparse(node)[:70]}` swap first two arguments', out
            if isinstance(node, ast.Call) and isinstance(node.func, ast.Attribute) and node.func.attr == 'copy' and not node.args:
                def ed(ns, i=i):
                    n = ns[i]
                    for par in ns:
                        for f, v in ast.iter_fields(par):
                            if v is n:
                                setattr(par, f, n.func.value)
                                return
                            if isinstance(v, list) and n in v:
                                v[v.index(n)] = n.func.value
                                return
                    return False
                out = variant(ed)
                if out:
                    yield f'{where}: `{ast.unparse(node)[:70]}` drop .copy()', out
            if isinstance(node, ast.Constant) and isinstance(node.value, (int, float)) and not isinstance(node.value, bool):
                new = {0: 1, 1: 0, 2: 1}.get(node.value, node.value + 1 if isinstance(node.value, int) else node.value * 2)

                def ed(ns, i=i, new=new):
                    ns[i].value = new
                out = variant(ed)
                if out:
                    yield f'{where}: constant {node.value!r} -> {new!r}', out
            if isinstance(node, (ast.If, ast.While, ast.IfExp)):
                def ed(ns, i=i):
                    ns[i].test = ast.UnaryOp(op=ast.Not(), operand=ns[i].test)
                out = variant(ed)
                if out:
                    yield f'{where}: negate condition `{ast.unparse(node.test)[:70]}`', out
            if isinstance(node, ast.BoolOp):
                def ed(ns, i=i):
                    ns[i].op = ast.Or() if isinstance(ns[i].op, ast.And) else ast.And()
                out = variant(ed)
                if out:
                    yield f'{where}: `{ast.unparse(node)[:70]}` and <-> or', out


_BASE = None


def _baseline():
    global _BASE
    if _BASE is None:
        from copstat.engine import PROPERTIES, Ctx, run_property
        from copstat.report import VIOLATION
        ctx = Ctx(overlay=_normalised_overlay())
        _BASE = {}
        for pid in PROPERTIES:
            _, rep = run_property(pid, 'quick', write=False, quiet=True, ctx=ctx)
            _BASE[pid] = {(o.rule, o.func, o.construct) for o in rep.obls if o.status == VIOLATION}
    return _BASE


def _normalised_overlay():
    """The unparse-normalised form of every file (so that a mutant differs from the baseline only by its edit)."""
    ov = {}
    for dp, _dn, fns in os.walk(os.path.join(REPO, 'copulas')):
        for fn in fns:
            if fn.endswith('.py'):
                full = os.path.join(dp, fn)
                ov[os.path.relpath(full, REPO)] = ast.unparse(ast.parse(open(full).read()))
    return ov


def run_mutant(job):
    rel, desc, src = job
    from copstat.engine import PROPERTIES, Ctx, run_property
    from copstat.model import AnalysisError
    from copstat.report import VIOLATION
    base = _baseline()
    ov = _normalised_overlay()
    ov[rel] = src
    hits, errors = [], []
    try:
        ctx = Ctx(overlay=ov)
    except Exception as exc:
        return {'file': rel, 'mutant': desc, 'status': 'model-error', 'detail': str(exc)[:100]}
    for pid in PROPERTIES:
        try:
            _, rep = run_property(pid, 'quick', write=False, quiet=True, ctx=ctx)
            new = {(o.rule, o.func, o.construct) for o in rep.obls if o.status == VIOLATION} - base[pid]
            hits += [f'{pid}:{k[0]}' for k in sorted(new)]
        except AnalysisError as exc:
            errors.append(f'{pid}:{str(exc)[:80]}')
        except Exception as exc:
            errors.append(f'{pid}:INTERNAL {type(exc).__name__} {str(exc)[:60]}')
    st = 'detected' if hits else ('analysis-error' if errors else 'undetected')
    return {'file': rel, 'mutant': desc, 'status': st, 'rules': sorted(set(hits)), 'errors': errors[:4]}


def main():
    ap = argparse.ArgumentParser()
    ap.add_argument('--files', default='')
    ap.add_argument('--jobs', type=int, default=16)
    ap.add_argument('--out', default='/dev/stdout')
    ap.add_argument('--limit', type=int, default=0)
    ap.add_argument('--list', action='store_true')
    a = ap.parse_args()
    files = []
    for dp, _dn, fns in os.walk(os.path.join(REPO, 'copulas')):
        for fn in sorted(fns):
            if fn.endswith('.py'):
                files.append(os.path.relpath(os.path.join(dp, fn), REPO))
    if a.files:
        want = a.files.split(',')
        files = [f for f in files if any(f.endswith(w) for w in want)]
    jobs = []
    for rel in sorted(files):
        src = open(os.path.join(REPO, rel)).read()
        norm = ast.unparse(ast.parse(src))
        seen = set()
        for desc, out in gen_mutants(src, rel):
            if out == norm or out in seen:
                continue
            seen.add(out)
            jobs.append((rel, desc, out))
    if a.limit:
        jobs = jobs[:a.limit]
    if a.list:
        for j in jobs:
            print(j[1])
        print(len(jobs), 'mutants')
        return
    with open(a.out, 'w') as fh, ProcessPoolExecutor(max_workers=a.jobs) as ex:
        n = {'detected': 0, 'undetected': 0, 'analysis-error': 0, 'model-error': 0}
        for res in ex.map(run_mutant, jobs, chunksize=4):
            n[res['status']] += 1
            fh.write(json.dumps(res) + '\n')
            fh.flush()
    print(json.dumps(n), file=sys.stderr)


if __name__ == '__main__':
    main()
