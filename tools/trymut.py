#!/venv/bin/python
"""Ad-hoc: apply one textual edit to a file of /repo/copulas in memory and list the new violations / undecided per property.

  trymut.py <file under copulas/> <old text> <new text> [C01 C02 ...]
"""
import sys

sys.path.insert(0, '/verif')
from copstat.engine import PROPERTIES, Ctx, run_property  # noqa: E402
from copstat.report import UNDECIDED, VIOLATION  # noqa: E402
from copstat.selftest import apply_edit  # noqa: E402


def main():
    f, old, new = sys.argv[1:4]
    props = sys.argv[4:] or list(PROPERTIES)
    old, new = old.encode().decode('unicode_escape'), new.encode().decode('unicode_escape')
    ov = apply_edit({'file': f, 'old': old, 'new': new, 'name': 'adhoc'})
    if ov is None:
        print('anchor not found (or not unique)')
        return 2
    base, mut = Ctx(), Ctx(overlay=ov)
    for pid in props:
        try:
            _c, r0 = run_property(pid, 'quick', write=False, quiet=True, ctx=base)
            _c, r1 = run_property(pid, 'quick', write=False, quiet=True, ctx=mut)
        except Exception as exc:
            print(pid, 'ERROR', type(exc).__name__, exc)
            continue
        k0 = {(o.rule, o.func, o.construct, o.status) for o in r0.obls}
        for o in r1.obls:
            if o.status in (VIOLATION, UNDECIDED) and (o.rule, o.func, o.construct, o.status) not in k0:
                print(pid, o.status.upper(), o.rule, o.func, f'[{o.construct}]', o.msg[:160])
    return 0


if __name__ == '__main__':
    sys.exit(main())
