#!/bin/sh
# usage: import_rf.sh <round e.g. 6> <first index e.g. 26> <area>...
rnd=$1; base=$2; shift; shift
cd /verif
for area in "$@"; do
  for i in 1 2 3 4 5; do
    src=/tmp/wt/rf$rnd-$area/_out/r$i; n=$((base+i-1)); dst=refactors/$area-r$n
    if [ -f $src/patch.diff ]; then mkdir -p $dst; cp $src/patch.diff $dst/; cp $src/equiv.py $src/meta.json $dst/ 2>/dev/null; echo imported $dst; else echo missing $src; fi
  done
  git -C /repo worktree remove --force /tmp/wt/rf$rnd-$area
done
git -C /repo worktree prune
