#!/bin/sh
# usage: import_seeds.sh <round-prefix e.g. s5> <Cxx>...
pre=$1; shift
cd /verif
for p in "$@"; do
  n0=$(ls -d seeded/$p-m* 2>/dev/null | wc -l)
  for i in 1 2 3; do
    src=/tmp/wt/$pre-$p/_out/m$i; k=$((n0+i)); dst=seeded/$p-m$k
    if [ -f $src/patch.diff ]; then
      mkdir -p $dst; cp $src/patch.diff $src/demo.py $src/meta.json $dst/ 2>/dev/null
      /venv/bin/python - <<PY
import json
p='$dst/meta.json'
try: d=json.load(open(p))
except Exception: d={}
d['id']='$p-m$k'; d['origin']='independent sub-agent given only the property text and a scratch worktree ($pre)'
json.dump(d,open(p,'w'),indent=1)
PY
      echo imported $dst
    else echo missing $src; fi
  done
  git -C /repo worktree remove --force /tmp/wt/$pre-$p
done
git -C /repo worktree prune
