#!/venv/bin/python
"""Robustness test of the rules (development aid, not a registered check): generic behaviour-preserving rewrites applied to
one function of /repo/copulas at a time, as an in-memory overlay; every check must stay silent and must not lose a verdict
to an analysis error.

Transforms (each applied to every site of the function at once):
  flip-cmp     a < b -> b > a, a <= b -> b >= a, a == b -> b == a, a != b -> b != a   (single comparisons)
  swap-mult    a * b -> b * a; a + k -> k + a for a numeric literal k                     (IEEE + and * commute)
  invert-if    if c: A else: B -> if not c: B else: A
  drop-else    if c: ...return/raise  else: B  ->  if c: ...return/raise ; B
  temp-return  return <call or operator expression> -> _result = <expr>; return _result
  temp-arg     f(g(x)) at statement level -> _arg = g(x); f(_arg)   (first positional call argument of an expression statement / assignment)
"""
import ast
import copy
import os
import sys
from concurrent.futures import ProcessPoolExecutor

sys.path.insert(0, '/verif')
REPO = '/repo'


class FlipCmp(ast.NodeTransformer):
    MAP = {ast.Lt: ast.Gt, ast.Gt: ast.Lt, ast.LtE: ast.GtE, ast.GtE: ast.LtE, ast.Eq: ast.Eq, ast.NotEq: ast.NotEq}

    def visit_Compare(self, node):
        self.generic_visit(node)
        if len(node.ops) == 1 and type(node.ops[0]) in self.MAP:
            return ast.copy_location(ast.Compare(left=node.comparators[0], ops=[self.MAP[type(node.ops[0])]()], comparators=[node.left]), node)
        return node


class SwapMult(ast.NodeTransformer):
    def visit_BinOp(self, node):
        self.generic_visit(node)
        num = lambda e: isinstance(e, ast.Constant) and isinstance(e.value, (int, float)) and not isinstance(e.value, bool)
        seq = lambda e: isinstance(e, (ast.List, ast.Tuple, ast.JoinedStr)) or (isinstance(e, ast.Constant) and isinstance(e.value, str))
        if isinstance(node.op, ast.Mult) and not seq(node.left) and not seq(node.right):
            return ast.copy_location(ast.BinOp(left=node.right, op=ast.Mult(), right=node.left), node)
        if isinstance(node.op, ast.Add) and num(node.right) and not seq(node.left):
            return ast.copy_location(ast.BinOp(left=node.right, op=ast.Add(), right=node.left), node)
        return node


class InvertIf(ast.NodeTransformer):
    def visit_If(self, node):
        self.generic_visit(node)
        if node.orelse and not (len(node.orelse) == 1 and isinstance(node.orelse[0], ast.If)):
            t = node.test.operand if isinstance(node.test, ast.UnaryOp) and isinstance(node.test.op, ast.Not) else ast.UnaryOp(op=ast.Not(), operand=node.test)
            return ast.copy_location(ast.If(test=t, body=node.orelse, orelse=node.body), node)
        return node


class DropElse(ast.NodeTransformer):
    def _block(self, stmts):
        out = []
        for s in stmts:
            if isinstance(s, ast.If) and s.orelse and s.body and isinstance(s.body[-1], (ast.Return, ast.Raise, ast.Continue, ast.Break)) \
                    and not (len(s.orelse) == 1 and isinstance(s.orelse[0], ast.If)):
                tail = s.orelse
                s.orelse = []
                out.append(s)
                out.extend(tail)
            else:
                out.append(s)
        return out

    def generic_visit(self, node):
        ast.NodeTransformer.generic_visit(self, node)
        for f in ('body', 'orelse', 'finalbody'):
            v = getattr(node, f, None)
            if isinstance(v, list) and v and isinstance(v[0], ast.stmt):
                setattr(node, f, self._block(v))
        return node


class TempReturn(ast.NodeTransformer):
    def _block(self, stmts):
        out = []
        for s in stmts:
            if isinstance(s, ast.Return) and isinstance(s.value, (ast.Call, ast.BinOp, ast.Subscript, ast.Compare)):
                out.append(ast.copy_location(ast.Assign(targets=[ast.Name(id='_result', ctx=ast.Store())], value=s.value), s))
                out.append(ast.copy_location(ast.Return(value=ast.Name(id='_result', ctx=ast.Load())), s))
            else:
                out.append(s)
        return out

    generic_visit = DropElse.generic_visit


class TempArg(ast.NodeTransformer):
    def _block(self, stmts):
        out = []
        for s in stmts:
            call = s.value if isinstance(s, (ast.Expr, ast.Assign)) and isinstance(s.value, ast.Call) else None
            if call is not None and call.args and isinstance(call.args[0], ast.Call) and not any(isinstance(a, ast.Starred) for a in call.args):
                # the callee expression and the other arguments are evaluated after the first argument anyway only if the callee is a plain name/attribute chain
                f = call.func
                plain = isinstance(f, ast.Name) or (isinstance(f, ast.Attribute) and isinstance(f.value, ast.Name))
                if plain:
                    out.append(ast.copy_location(ast.Assign(targets=[ast.Name(id='_arg', ctx=ast.Store())], value=call.args[0]), s))
                    call.args[0] = ast.Name(id='_arg', ctx=ast.Load())
            out.append(s)
        return out

    generic_visit = DropElse.generic_visit


class DeMorgan(ast.NodeTransformer):
    """not (a or b) -> (not a) and (not b); not (a and b) -> (not a) or (not b); a or b (as an if/while test) -> not (not a and not b)"""

    def visit_UnaryOp(self, node):
        self.generic_visit(node)
        if isinstance(node.op, ast.Not) and isinstance(node.operand, ast.BoolOp):
            op = ast.And() if isinstance(node.operand.op, ast.Or) else ast.Or()
            return ast.copy_location(ast.BoolOp(op=op, values=[ast.UnaryOp(op=ast.Not(), operand=v) for v in node.operand.values]), node)
        return node

    def visit_If(self, node):
        self.generic_visit(node)
        if isinstance(node.test, ast.BoolOp):
            op = ast.And() if isinstance(node.test.op, ast.Or) else ast.Or()
            inner = ast.BoolOp(op=op, values=[ast.UnaryOp(op=ast.Not(), operand=v) for v in node.test.values])
            node.test = ast.copy_location(ast.UnaryOp(op=ast.Not(), operand=inner), node.test)
        return node


class IfExpToIf(ast.NodeTransformer):
    def _block(self, stmts):
        out = []
        for s in stmts:
            if isinstance(s, ast.Assign) and isinstance(s.value, ast.IfExp) and len(s.targets) == 1 and isinstance(s.targets[0], (ast.Name, ast.Attribute)):
                mk = lambda v: ast.copy_location(ast.Assign(targets=[copy.deepcopy(s.targets[0])], value=v), s)
                out.append(ast.copy_location(ast.If(test=s.value.test, body=[mk(s.value.body)], orelse=[mk(s.value.orelse)]), s))
            elif isinstance(s, ast.Return) and isinstance(s.value, ast.IfExp):
                out.append(ast.copy_location(ast.If(test=s.value.test, body=[ast.copy_location(ast.Return(value=s.value.body), s)],
                                                    orelse=[ast.copy_location(ast.Return(value=s.value.orelse), s)]), s))
            else:
                out.append(s)
        return out

    generic_visit = DropElse.generic_visit


class IfToIfExp(ast.NodeTransformer):
    """if c: x = a else: x = b -> x = a if c else b;  if c: return a [else:] return b -> return a if c else b"""

    def _block(self, stmts):
        out = []
        i = 0
        while i < len(stmts):
            s = stmts[i]
            nxt = stmts[i + 1] if i + 1 < len(stmts) else None
            if isinstance(s, ast.If) and len(s.body) == 1 and len(s.orelse) == 1 and isinstance(s.body[0], ast.Assign) and isinstance(s.orelse[0], ast.Assign) \
                    and len(s.body[0].targets) == 1 and isinstance(s.body[0].targets[0], ast.Name) and ast.dump(s.body[0].targets[0]) == ast.dump(s.orelse[0].targets[0]) \
                    and len(s.orelse[0].targets) == 1:
                out.append(ast.copy_location(ast.Assign(targets=[s.body[0].targets[0]], value=ast.IfExp(test=s.test, body=s.body[0].value, orelse=s.orelse[0].value)), s))
            elif isinstance(s, ast.If) and len(s.body) == 1 and isinstance(s.body[0], ast.Return) and s.body[0].value is not None and not s.orelse \
                    and isinstance(nxt, ast.Return) and nxt.value is not None:
                out.append(ast.copy_location(ast.Return(value=ast.IfExp(test=s.test, body=s.body[0].value, orelse=nxt.value)), s))
                i += 1
            elif isinstance(s, ast.If) and len(s.body) == 1 and len(s.orelse) == 1 and isinstance(s.body[0], ast.Return) and isinstance(s.orelse[0], ast.Return) \
                    and s.body[0].value is not None and s.orelse[0].value is not None:
                out.append(ast.copy_location(ast.Return(value=ast.IfExp(test=s.test, body=s.body[0].value, orelse=s.orelse[0].value)), s))
            else:
                out.append(s)
            i += 1
        return out

    generic_visit = DropElse.generic_visit


class MergeNestedIf(ast.NodeTransformer):
    """if a: (if b: S) -> if a and b: S   (no else on either)"""

    def visit_If(self, node):
        self.generic_visit(node)
        if not node.orelse and len(node.body) == 1 and isinstance(node.body[0], ast.If) and not node.body[0].orelse:
            inner = node.body[0]
            vals = (node.test.values if isinstance(node.test, ast.BoolOp) and isinstance(node.test.op, ast.And) else [node.test]) + \
                   (inner.test.values if isinstance(inner.test, ast.BoolOp) and isinstance(inner.test.op, ast.And) else [inner.test])
            return ast.copy_location(ast.If(test=ast.BoolOp(op=ast.And(), values=vals), body=inner.body, orelse=[]), node)
        return node


class SplitAndIf(ast.NodeTransformer):
    """if a and b: S (no else) -> if a: if b: S"""

    def visit_If(self, node):
        self.generic_visit(node)
        if not node.orelse and isinstance(node.test, ast.BoolOp) and isinstance(node.test.op, ast.And) and len(node.test.values) >= 2:
            rest = node.test.values[1:]
            inner = ast.copy_location(ast.If(test=rest[0] if len(rest) == 1 else ast.BoolOp(op=ast.And(), values=rest), body=node.body, orelse=[]), node)
            return ast.copy_location(ast.If(test=node.test.values[0], body=[inner], orelse=[]), node)
        return node


class Walrus(ast.NodeTransformer):
    """x = e; if <test reading x first>: -> if <test with (x := e) at the first read>   (x a plain local, e evaluated first in the test anyway)"""

    def _block(self, stmts):
        out = []
        i = 0
        while i < len(stmts):
            s = stmts[i]
            nxt = stmts[i + 1] if i + 1 < len(stmts) else None
            done = False
            if isinstance(s, ast.Assign) and len(s.targets) == 1 and isinstance(s.targets[0], ast.Name) and isinstance(nxt, ast.If):
                name = s.targets[0].id
                t = nxt.test
                # only the simplest shapes: `x <op> k`, `x is None`, `not x`, `x`, `f(x)` with f a plain name/attribute
                first = None
                if isinstance(t, ast.Compare) and isinstance(t.left, ast.Name) and t.left.id == name:
                    first = ('cmp',)
                elif isinstance(t, ast.Name) and t.id == name:
                    first = ('name',)
                elif isinstance(t, ast.UnaryOp) and isinstance(t.op, ast.Not) and isinstance(t.operand, ast.Name) and t.operand.id == name:
                    first = ('not',)
                elif isinstance(t, ast.Call) and isinstance(t.func, (ast.Name, ast.Attribute)) and t.args and isinstance(t.args[0], ast.Name) and t.args[0].id == name \
                        and (isinstance(t.func, ast.Name) or isinstance(t.func.value, ast.Name) and t.func.value.id != name):
                    first = ('call',)
                if first and name not in {x.id for x in ast.walk(s.value) if isinstance(x, ast.Name)}:
                    w = ast.NamedExpr(target=ast.Name(id=name, ctx=ast.Store()), value=s.value)
                    if first[0] == 'cmp':
                        t.left = w
                    elif first[0] == 'name':
                        nxt.test = w
                    elif first[0] == 'not':
                        t.operand = w
                    else:
                        t.args[0] = w
                    done = True
            if not done:
                out.append(s)
            i += 1
        return out

    generic_visit = DropElse.generic_visit


class TempCond(ast.NodeTransformer):
    def _block(self, stmts):
        out = []
        for s in stmts:
            if isinstance(s, ast.If) and not isinstance(s.test, ast.Name):
                out.append(ast.copy_location(ast.Assign(targets=[ast.Name(id='_cond', ctx=ast.Store())], value=s.test), s))
                s.test = ast.copy_location(ast.Name(id='_cond', ctx=ast.Load()), s.test)
            out.append(s)
        return out

    generic_visit = DropElse.generic_visit


TRANSFORMS = {'if-to-ifexp': IfToIfExp, 'merge-nested-if': MergeNestedIf, 'split-and-if': SplitAndIf, 'walrus': Walrus, 'de-morgan': DeMorgan, 'ifexp-to-if': IfExpToIf, 'temp-cond': TempCond, 'flip-cmp': FlipCmp, 'swap-mult': SwapMult, 'invert-if': InvertIf, 'drop-else': DropElse, 'temp-return': TempReturn, 'temp-arg': TempArg}


def variants():
    out = []
    for dp, _dn, fns in os.walk(os.path.join(REPO, 'copulas')):
        for f in sorted(fns):
            if not f.endswith('.py'):
                continue
            full = os.path.join(dp, f)
            rel = os.path.relpath(full, REPO)
            src = open(full).read()
            base = ast.unparse(ast.parse(src))
            n = len([x for x in ast.walk(ast.parse(src)) if isinstance(x, (ast.FunctionDef, ast.AsyncFunctionDef))])
            for i in range(n):
                for tname, T in TRANSFORMS.items():
                    t = ast.parse(src)
                    fn = [x for x in ast.walk(t) if isinstance(x, (ast.FunctionDef, ast.AsyncFunctionDef))][i]
                    T().visit(fn)
                    ast.fix_missing_locations(t)
                    new = ast.unparse(t)
                    if new != base:
                        out.append((f'{rel}:{fn.name}:{tname}', {rel: new}))
    return out


def one(args):
    label, ov = args
    from copstat.engine import PROPERTIES, Ctx, run_property
    from copstat.model import AnalysisError
    for rel, src in ov.items():
        compile(src, rel, 'exec')
    try:
        ctx = Ctx(overlay=ov)
    except Exception as e:
        return label, [('model', str(e)[:100])]
    bad = []
    for pid in PROPERTIES:
        try:
            code, rep = run_property(pid, 'quick', write=False, quiet=True, ctx=ctx)
            if code != 0:
                bad.append((pid, 'exit', code, [(o.rule, o.construct[:50]) for o in rep.obls if o.status == 'violation' and not getattr(o, 'known', False)][:6]))
        except AnalysisError as e:
            bad.append((pid, 'ANALYSIS-ERROR', str(e)[:100]))
        except Exception as e:
            import traceback
            bad.append((pid, 'INTERNAL', type(e).__name__, str(e)[:80], traceback.format_exc().splitlines()[-3].strip()[:100]))
    return label, bad


if __name__ == '__main__':
    vs = variants()
    if len(sys.argv) > 1:
        vs = [v for v in vs if any(a in v[0] for a in sys.argv[1:])]
    print(len(vs), 'variants', flush=True)
    nbad = 0
    with ProcessPoolExecutor(int(os.environ.get('JOBS', '8'))) as ex:
        for label, bad in ex.map(one, vs):
            if bad:
                nbad += 1
                print(label, bad, flush=True)
    print('done; variants with alarms:', nbad)
