#!/venv/bin/python
"""Prepare a round of sub-agent work: a scratch worktree of /repo per item and the prompt file.

  new_round.py seed <prefix e.g. s8> <Cxx>...          (prompt lists the summaries of the changes already kept for that property)
  new_round.py refactor <prefix e.g. rf7> <area>... [-- style text]
Prints the prompt paths; the worktrees live under /tmp/wt and are removed by import_seeds.sh / import_rf.sh."""
import glob
import json
import os
import subprocess
import sys

sys.path.insert(0, os.path.dirname(__file__))
import agent_prompts as AP

kind, pre = sys.argv[1:3]
rest = sys.argv[3:]
style = ''
if '--' in rest:
    i = rest.index('--')
    rest, style = rest[:i], ' '.join(rest[i + 1:])
os.makedirs('/tmp/wt', exist_ok=True)
for item in rest:
    wt = f'/tmp/wt/{pre}-{item}'
    if not os.path.isdir(wt):
        subprocess.run(['git', '-C', '/repo', 'worktree', 'add', '--detach', wt, 'HEAD'], check=True, stdout=subprocess.DEVNULL, stderr=subprocess.DEVNULL)
    if kind == 'seed':
        text = AP.seed(item, wt)
        prev = []
        for m in sorted(glob.glob(f'/verif/seeded/{item}-m*/meta.json')):
            try:
                prev.append(json.load(open(m)).get('summary', '')[:240])
            except Exception:
                pass
        if prev:
            text += ('\n\n\nChanges of the following kinds were already produced by others; yours must be DIFFERENT in location or mechanism from all of them '
                     '(different function, different clause of the property, or a different way of breaking it). Prefer subtle changes that a reviewer would accept: '
                     'an optimisation, a numerical-stability rewrite, a helper extraction with one detail lost, a changed default, a cache, a dtype or precision change, '
                     'an off-by-one in a rarely taken branch, an argument re-used or modified in place:\n' + '\n'.join('  - ' + p for p in prev)
                     + '\nNever use `git stash` (it is shared between worktrees).')
    else:
        text = AP.refactor(item, wt, style)
    path = f'/tmp/wt/prompt_{pre}-{item}.txt'
    open(path, 'w').write(text)
    print(path)
