#!/venv/bin/python
"""Regenerate /verif/MANIFEST.json from the table below (keeps it schema-valid)."""
import json
import os
import sys

VERIF = os.path.dirname(os.path.dirname(os.path.abspath(__file__)))
sys.path.insert(0, VERIF)
from copstat.manifest_table import CLAIMS, NOT_APPLICABLE  # noqa: E402

props = [json.loads(l)['id'] for l in open(os.path.join(VERIF, 'properties.jsonl'))]
checks = []
for pid in props:
    if pid not in CLAIMS:
        continue
    c = CLAIMS[pid]
    checks.append({
        'property_id': pid,
        'quick_cmd': f'./check {pid} --tier quick',
        'thorough_cmd': f'./check {pid} --tier thorough',
        'evidence_file': f'/verif/evidence/{pid}.json',
        'replay_cmd_template': f'./check {pid} --replay {{path}}',
        'engine': 'copstat',
        'level_claimed': {'category': 'other', 'text': c['text'], 'design_ref': f'DESIGN.md section 4, {pid}'},
        'level_note': c['note'],
        'technique': c['technique'],
    })
na = [{'property_id': p, 'reason': NOT_APPLICABLE.get(p, 'static rules for this property are not built yet in this session; not claimed')}
      for p in props if p not in CLAIMS]
manifest = {
    'version': 1,
    'setup_cmd': '/venv/bin/python -m compileall -q copstat',
    'hooks': {
        'guard': 'COPULAS_VERIF',
        'enable': 'no hooks: every check parses /repo/copulas from the working tree (ast) and never imports or runs it',
        'baseline_off_cmd': 'cd /repo && /venv/bin/python -m pytest -q -p no:cacheprovider --timeout=900 --continue-on-collection-errors',
        'source_commits': [],
        'add_only': True,
    },
    'engines': [{
        'name': 'copstat', 'path': '/verif/copstat', 'serves_properties': sorted(CLAIMS),
        'kind_free_text': 'repository-specific static analysis over Python ast: program model, class-hierarchy call graph, '
                          'statement CFG with dominators, effect summaries (global RNG, self attributes, parameter aliasing), '
                          'kind systems by abstract interpretation, idiom matchers; in-memory mutant/rewrite self-validation',
    }],
    'checks': checks,
    'not_applicable': na,
    'notes': 'Exit codes: 0 held (KNOWN-FINDING lines for entries of known_findings.json), 1 VIOLATION, 2 ANALYSIS-ERROR '
             '(the analysis could not run: vanished public anchor, instance floor, internal error). Level category is '
             '"other": static discharge of enumerated structural obligations; PARTIAL means only the structural clauses '
             'named in DESIGN.md are decided, not the numeric/statistical behaviour.',
}
json.dump(manifest, open(os.path.join(VERIF, 'MANIFEST.json'), 'w'), indent=1)
print('claimed', len(checks), 'not applicable', len(na))
