#!/venv/bin/python
"""Behaviour-preserving refactorings from independent sub-agents: the checks must stay silent on them.

  refactors.py import <src dir> <id>    copy an agent's _out/rK directory into /verif/refactors/<id>/
  refactors.py run <id>|all             apply to /repo, run every quick check, record exit codes / alarms, undo
"""
import json
import os
import shutil
import subprocess
import sys

VERIF = '/verif'
RF = os.path.join(VERIF, 'refactors')


def sh(cmd, cwd=None, timeout=900):
    p = subprocess.run(cmd, shell=True, cwd=cwd, capture_output=True, text=True, timeout=timeout)
    return p.returncode, p.stdout + p.stderr


def cmd_import(src, i):
    dst = os.path.join(RF, i)
    os.makedirs(dst, exist_ok=True)
    for f in ('patch.diff', 'equiv.py', 'meta.json'):
        if os.path.exists(os.path.join(src, f)):
            shutil.copy(os.path.join(src, f), os.path.join(dst, f))
    print('imported', i)


def cmd_run(i):
    d = os.path.join(RF, i)
    rc, out = sh('git -C /repo status --porcelain')
    if out.strip():
        print('/repo is not clean; refusing')
        return
    rc, out = sh(f'git -C /repo apply {d}/patch.diff')
    if rc:
        print(i, 'patch does not apply', out[:200])
        return
    alarms = []
    undecided = 0
    try:
        claimed = [c['property_id'] for c in json.load(open(os.path.join(VERIF, 'MANIFEST.json')))['checks']]
        for pid in claimed:
            rc, o = sh(f'./check {pid} --tier quick', cwd=VERIF)
            undecided += o.count('UNDECIDED rule=')
            if rc != 0 or 'VIOLATION' in o or 'ANALYSIS-ERROR' in o:
                lines = [l for l in o.splitlines() if l.startswith(('VIOLATION', 'ANALYSIS-ERROR', '  rule=', '  construct', '  what'))]
                alarms.append({'property': pid, 'exit': rc, 'lines': lines[:12]})
    finally:
        sh('git -C /repo checkout -- .')
        sh('git -C /repo clean -fdq copulas')
    m = {}
    mp = os.path.join(d, 'meta.json')
    if os.path.exists(mp):
        m = json.load(open(mp))
    m['false_alarms'] = alarms
    m['undecided_total'] = undecided
    json.dump(m, open(mp, 'w'), indent=1)
    for pid in claimed:
        sh(f'./check {pid} --tier quick', cwd=VERIF)
    print(i, 'SILENT' if not alarms else 'FALSE-ALARM', f'(undecided {undecided})')
    for a in alarms:
        print('   ', a['property'], 'exit', a['exit'])
        for l in a['lines']:
            print('       ', l[:200])


if __name__ == '__main__':
    a = sys.argv[1:]
    if a[0] == 'import':
        cmd_import(a[1], a[2])
    elif a[0] == 'run':
        ids = sorted(os.listdir(RF)) if a[1] == 'all' else a[1:]
        for i in ids:
            cmd_run(i)
