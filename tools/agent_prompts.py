#!/venv/bin/python
"""Prompts handed to independent sub-agents (kept for reproducibility).

  agent_prompts.py seed <Cxx> <worktree>       three property-breaking changes that keep the suite green
  agent_prompts.py refactor <area> <worktree>  five behaviour-preserving refactorings of one area
The agents see only the property text (seed) or the area (refactor) and their own scratch worktree, never /verif.
"""
import json
import sys

AREAS = {
    'utils-datasets': 'copulas/utils.py, copulas/datasets.py, copulas/errors.py and copulas/__init__.py',
    'univariate': 'copulas/univariate/ (base.py, selection.py and the distribution modules)',
    'bivariate': 'copulas/bivariate/ (base.py, clayton.py, frank.py, gumbel.py, independence.py, utils.py, __init__.py)',
    'gaussian-mv': 'copulas/multivariate/gaussian.py and copulas/multivariate/base.py',
    'vine-tree': 'copulas/multivariate/vine.py and copulas/multivariate/tree.py',
    'optimize-viz': 'copulas/optimize/__init__.py and copulas/visualization.py',
}


def seed(pid, wt):
    props = {json.loads(l)['id']: json.loads(l) for l in open('/verif/properties.jsonl')}
    p = props[pid]
    return f"""You are helping to evaluate a verification effort for the open-source Python library sdv-dev/Copulas (a copula modelling library). You have your own scratch git worktree of the library at {wt} (a checkout of the current code). Work ONLY inside {wt}. Do not read or write anything under /verif or /repo, and do not look at other directories under /tmp/wt.

Here is a semantic property the library is supposed to satisfy:

  Title: {p['title']}
  Statement: {p['statement']}
  Quantifier: {p['quantifier']['text']}

Your task: produce THREE different, independent, realistic source changes ("bugs") to the library code under {wt}/copulas that each BREAK this property, while
  (a) the package still imports/compiles, and
  (b) the existing test suite still passes. Run it with:
        cd {wt} && PYTHONPATH={wt} /venv/bin/python -m pytest -q -p no:cacheprovider --timeout=900 -x -q tests 2>&1 | tail -5
      (takes 1-3 minutes; first confirm `PYTHONPATH={wt} /venv/bin/python -c "import copulas; print(copulas.__file__)"` prints a path under {wt}). The baseline has 294 passing tests; all must still pass with your change. (A few statistical tests are unseeded and flaky: if one fails, re-run it on the unmodified tree before blaming your change.)
  (c) the change looks like something a developer could plausibly commit (a refactor gone wrong, an "optimisation", a mis-ordered statement, a dropped copy, a swapped argument, a wrong guard, a helper that changes behaviour subtly...), NOT something ordinary use would expose at once. Prefer changes that need something specific to manifest: an unusual input, a particular sequence of calls, a specific container type or column order, an exception at a particular point, two cooperating sites that each look fine alone. Vary the kind of bug and the location across your three changes (different files / functions / clauses of the property where possible).

For each change i in 1..3 create a directory {wt}/_out/m<i>/ containing:
  - patch.diff : the change as a unified diff produced by `git -C {wt} diff` (relative to the unmodified checkout; ONLY changes under copulas/), applying cleanly with `git apply` on a clean checkout;
  - demo.py : a small standalone program (run as `PYTHONPATH=<tree> /venv/bin/python demo.py`) that exits 0 on the unmodified code and exits non-zero (assertion failure) WITH the change applied, demonstrating the property violation. It must be deterministic (fix seeds) and run in under 60 seconds;
  - meta.json : {{"property": "{pid}", "summary": "<what was changed>", "needs": "<what specific input / sequence / condition is needed for the bug to manifest>", "files": [...], "tests_passed_with_change": true}}.

Procedure per change: edit the code, run the test suite (must fully pass), run the demo (must fail), `git diff > _out/m<i>/patch.diff`, then `git checkout -- copulas` to restore the tree, run the demo again (must pass), and move to the next change. Leave the worktree clean (only the untracked _out directory) when finished. Only Python packages already installed in /venv are available; there is no network.

Report at the end a short list of the three changes (file, function, one-line description, what is needed to trigger)."""


def refactor(area, wt, style=''):
    return f"""You are helping to evaluate a verification effort for the open-source Python library sdv-dev/Copulas (a copula modelling library). You have your own scratch git worktree of the library at {wt} (a checkout of the current code). Work ONLY inside {wt}. Do not read or write anything under /verif or /repo, and do not look at other directories under /tmp/wt.

Your task: produce FIVE different, independent, BEHAVIOUR-PRESERVING refactorings of this area of the library: {AREAS[area]}.
Each refactoring is the kind of clean-up a maintainer would merge: extracting or inlining helper functions/methods, renaming locals and private helpers, replacing loops by comprehensions or vectorised numpy (or the reverse), restructuring conditionals (early returns, inverted tests, merged or split branches), reordering independent statements, introducing temporaries or removing them, switching between equivalent library calls (np.power vs **, np.asarray vs np.array where equivalent, dict/list construction idioms, f-strings), moving shared code to a private helper, decorators vs explicit calls, etc. {style}
Each refactoring should touch several functions and be substantial (20-80 changed lines), and the five should differ in style and location. The observable behaviour must be IDENTICAL for every input: same return values (bit-for-bit for deterministic code, same random stream consumption order for sampling code), same exceptions and messages, same mutation/non-mutation of arguments, same attributes stored on objects, same public API. Do not fix bugs, do not change numerics (keep the floating-point operation order), do not change what is copied or mutated.

For each refactoring i in 1..5:
  1. edit the code under {wt}/copulas;
  2. run the test suite - it must pass:
        cd {wt} && PYTHONPATH={wt} /venv/bin/python -m pytest -q -p no:cacheprovider --timeout=900 -q tests 2>&1 | tail -5
     (first confirm `PYTHONPATH={wt} /venv/bin/python -c "import copulas; print(copulas.__file__)"` prints a path under {wt}; the baseline has 294 passing tests; a few unseeded statistical tests are flaky - re-run on the unmodified tree before blaming your change);
  3. write {wt}/_out/r<i>/equiv.py : a deterministic program (fixed seeds, < 60 s) that exercises the refactored functions on a variety of inputs (including edge cases and error paths) and prints results with full precision (repr / .tolist()); its output must be byte-identical on the unmodified tree and on the refactored tree - verify this by running it on both (save your diff with `git diff > file`, `git checkout -- copulas`, run, `git apply file`; never use `git stash`: it is shared between worktrees);
  4. `git -C {wt} diff > _out/r<i>/patch.diff` (ONLY changes under copulas/, applying cleanly with `git apply` on a clean checkout);
  5. write _out/r<i>/meta.json : {{"area": "{area}", "summary": "<what was refactored and how>", "files": [...], "tests_passed": true, "equiv_output_identical": true}};
  6. `git checkout -- copulas` (and remove new untracked files under copulas/) to restore the tree before the next refactoring.
Leave the worktree clean (only the untracked _out directory) when finished. Only Python packages already installed in /venv are available; there is no network.

Report at the end a short list of the five refactorings (files, functions, one-line description)."""


if __name__ == '__main__':
    kind, what, wt = sys.argv[1:4]
    print(seed(what, wt) if kind == 'seed' else refactor(what, wt, ' '.join(sys.argv[4:])))
