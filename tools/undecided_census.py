#!/venv/bin/python
"""Development aid: for every stored refactoring, the obligations that are UNDECIDED there but not on the pinned tree (verdict strength lost
to a behaviour-preserving rewrite), summed per property/rule.  usage: undecided_census.py [ids...]"""
import os
import sys
from collections import Counter
from concurrent.futures import ProcessPoolExecutor

sys.path.insert(0, '/verif'); sys.path.insert(0, '/verif/tools')
import batch


def one(rid):
    from copstat.engine import PROPERTIES, Ctx, run_property
    from copstat.report import UNDECIDED
    ov = batch.overlay_of(f'/verif/refactors/{rid}/patch.diff')
    ctx, base = Ctx(overlay=ov), Ctx()
    out = []
    for pid in PROPERTIES:
        try:
            _c, r0 = run_property(pid, 'quick', write=False, quiet=True, ctx=base)
            _c, r1 = run_property(pid, 'quick', write=False, quiet=True, ctx=ctx)
        except Exception as exc:
            out.append((pid, 'ERROR', str(exc)[:60]))
            continue
        k0 = {(o.rule, o.construct) for o in r0.obls if o.status == UNDECIDED}
        for o in r1.obls:
            if o.status == UNDECIDED and (o.rule, o.construct) not in k0:
                out.append((pid, o.rule, o.msg[:90]))
    return rid, out


if __name__ == '__main__':
    ids = sys.argv[1:] or sorted(os.listdir('/verif/refactors'))
    tot = Counter()
    with ProcessPoolExecutor(max_workers=int(os.environ.get('JOBS', '8'))) as ex:
        for rid, out in ex.map(one, ids):
            for pid, rule, msg in out:
                tot[(pid, rule)] += 1
                print(f'{rid:<22} {pid}:{rule}  {msg}')
    print('---')
    for (pid, rule), n in tot.most_common():
        print(f'{n:4d}  {pid}:{rule}')
