import sys
sys.path.insert(0,'/verif'); sys.path.insert(0,'/verif/tools')
import batch
from copstat.engine import Ctx, run_property
from copstat.report import VIOLATION, UNDECIDED
sid, pid = sys.argv[1], sys.argv[2]
ov = batch.overlay_of(f'/verif/seeded/{sid}/patch.diff')
ctx = Ctx(overlay=ov)
base = Ctx()
_c, r0 = run_property(pid, 'quick', write=False, quiet=True, ctx=base)
_c, r1 = run_property(pid, 'quick', write=False, quiet=True, ctx=ctx)
k0 = {(o.rule, o.func, o.construct, o.status) for o in r0.obls}
for o in r1.obls:
    if o.status in (VIOLATION, UNDECIDED) and (o.rule, o.func, o.construct, o.status) not in k0:
        print(o.status.upper(), o.rule, o.func, f'[{o.construct}]', o.msg[:300])
