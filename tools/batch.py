#!/venv/bin/python
"""Fast in-memory evaluation of the seeded changes and the behaviour-preserving refactorings.

Each patch is applied to a scratch copy of /repo/copulas (never to /repo), the changed files become a source
overlay, and every property's quick rules run on the overlay in worker processes.

  batch.py refactors [ids...]   expected: silent (no new violation, no analysis error)
  batch.py seeded [ids...]      expected: at least one new violation
"""
import json
import os
import shutil
import subprocess
import sys
import tempfile
from concurrent.futures import ProcessPoolExecutor

VERIF = '/verif'
sys.path.insert(0, VERIF)


def overlay_of(patch):
    tmp = tempfile.mkdtemp(prefix='cpo_', dir='/dev/shm' if os.path.isdir('/dev/shm') else None)
    try:
        shutil.copytree('/repo/copulas', os.path.join(tmp, 'copulas'))
        subprocess.run(['git', 'init', '-q'], cwd=tmp, check=True)
        p = subprocess.run(['git', 'apply', patch], cwd=tmp, capture_output=True, text=True)
        if p.returncode:
            return None
        ov = {}
        for dp, _dn, fns in os.walk(os.path.join(tmp, 'copulas')):
            for fn in fns:
                if fn.endswith('.py'):
                    full = os.path.join(dp, fn)
                    rel = os.path.relpath(full, tmp)
                    src = open(full).read()
                    orig = os.path.join('/repo', rel)
                    if not os.path.exists(orig) or open(orig).read() != src:
                        ov[rel] = src
        return ov
    finally:
        shutil.rmtree(tmp, ignore_errors=True)


def run_one(args):
    kind, ident, patch, base = args
    from copstat.engine import PROPERTIES, Ctx, run_property
    from copstat.model import AnalysisError
    from copstat.report import VIOLATION
    ov = overlay_of(patch)
    if ov is None:
        return ident, 'PATCH-DOES-NOT-APPLY', []
    out = []
    try:
        ctx = Ctx(overlay=ov)
    except Exception as exc:
        return ident, 'ERROR', [f'model: {exc}']
    for pid in PROPERTIES:
        try:
            code, rep = run_property(pid, 'quick', write=False, quiet=True, ctx=ctx)
            keys = {(o.rule, o.func, o.construct) for o in rep.obls if o.status == VIOLATION}
            new = sorted(keys - set(map(tuple, base.get(pid, []))))
            for k in new:
                msg = [o.msg for o in rep.obls if (o.rule, o.func, o.construct) == k][0]
                out.append(f'{pid}:{k[0]} {k[1]} [{k[2][:70]}] {msg[:110]}')
        except AnalysisError as exc:
            out.append(f'{pid}:ANALYSIS-ERROR {str(exc)[:150]}')
        except Exception as exc:
            import traceback
            out.append(f'{pid}:INTERNAL-ERROR {type(exc).__name__} {str(exc)[:100]} @ {traceback.format_exc().splitlines()[-3].strip()[:120]}')
    return ident, 'done', out


def baseline():
    from copstat.engine import PROPERTIES, Ctx, run_property
    from copstat.report import VIOLATION
    ctx = Ctx()
    base = {}
    for pid in PROPERTIES:
        code, rep = run_property(pid, 'quick', write=False, quiet=True, ctx=ctx)
        base[pid] = sorted({(o.rule, o.func, o.construct) for o in rep.obls if o.status == VIOLATION})
    return base


def main():
    kind = sys.argv[1]
    root = os.path.join(VERIF, 'refactors' if kind == 'refactors' else 'seeded')
    ids = sys.argv[2:] or sorted(d for d in os.listdir(root) if os.path.isdir(os.path.join(root, d)))
    base = baseline()
    work = [(kind, i, os.path.join(root, i, 'patch.diff'), base) for i in ids]
    with ProcessPoolExecutor(max_workers=min(16, len(work))) as ex:
        results = list(ex.map(run_one, work))
    bad = 0
    for ident, st, out in results:
        if kind == 'refactors':
            ok = st == 'done' and not out
            print(f'{ident:<22} {"SILENT" if ok else (st if st != "done" else "FALSE-ALARM")}')
            if not ok:
                bad += 1
                for l in out[:14]:
                    print('      ', l)
        else:
            ok = st == 'done' and any('ANALYSIS-ERROR' not in l and 'INTERNAL-ERROR' not in l for l in out)
            print(f'{ident:<10} {"DETECTED" if ok else (st if st != "done" else "MISSED")}  {sorted({l.split()[0] for l in out})}')
            if not ok:
                bad += 1
    print(f'{kind}: {len(results) - bad}/{len(results)} as expected')
    return 1 if bad else 0


if __name__ == '__main__':
    sys.exit(main())
