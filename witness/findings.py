"""Dynamic witnesses for the findings the static rules report (NOT part of any registered check).

Run:  /venv/bin/python /verif/witness/findings.py [F1 F2 ...]
Each witness prints DEFECT (the finding reproduces on the current /repo) or FIXED.
"""
import sys
import warnings

import numpy as np
import pandas as pd

warnings.filterwarnings('ignore')


def F1():
    from copulas.multivariate import GaussianMultivariate
    rng = np.random.RandomState(0)
    X = pd.DataFrame({'a': rng.normal(size=200), 'b': rng.normal(size=200)})
    gm = GaussianMultivariate(); gm.fit(X)
    try:
        out = gm.sample(3, conditions=pd.Series({'a': 0.1}))
        return not (out['a'] == 0.1).all()
    except ValueError as e:
        return 'ambiguous' in str(e)


def F2():
    from copulas.multivariate import GaussianMultivariate
    from copulas.univariate import GaussianUnivariate
    rng = np.random.RandomState(0)
    a = rng.normal(size=2000); b = 0.9 * a + np.sqrt(1 - .81) * rng.normal(size=2000); c = rng.normal(size=2000) * 5
    X = pd.DataFrame({'a': a, 'b': b, 'c': c})
    gm = GaussianMultivariate(distribution=GaussianUnivariate, random_state=1); gm.fit(X)
    m1 = gm.sample(4000, conditions={'a': 2, 'c': -7})['b'].mean()
    gm.set_random_state(1)
    m2 = gm.sample(4000, conditions={'c': -7, 'a': 2})['b'].mean()
    return abs(m1 - m2) > 0.5


def F4():
    from copulas.univariate import Univariate, GaussianUnivariate
    X = np.random.RandomState(0).normal(size=100)
    u = Univariate(candidates=[GaussianUnivariate], random_state=7); u.fit(X)
    v = Univariate(candidates=[GaussianUnivariate], random_state=7); v.fit(X)
    np.random.seed(123); before = np.random.get_state()[1].copy()
    s1 = u.sample(5); s2 = v.sample(5)
    after = np.random.get_state()[1]
    return (not np.allclose(s1, s2)) or (before != after).any()


def F5():
    from copulas.univariate import GaussianUnivariate
    g = GaussianUnivariate(); g.fit(np.full(10, 3.0)); g.fit(np.random.RandomState(0).normal(size=100))
    c = g.cdf(np.array([-5.0, 0.0, 5.0]))
    return not (0 < c[1] < 1)


def F6():
    from copulas.univariate import TruncatedGaussian
    rng = np.random.RandomState(0)
    t = TruncatedGaussian(); t.fit(rng.uniform(0, 1, 200)); t.fit(rng.uniform(10, 11, 200))
    return t.cdf(np.array([10.5]))[0] in (0.0, 1.0) or not np.isfinite(t.cdf(np.array([10.5]))[0])


def F8():
    from copulas.multivariate.tree import Tree
    src = open('/repo/copulas/multivariate/tree.py').read()
    return 'tau = np.empty([num_edges, num_edges])' in src


def F9():
    from copulas.bivariate import Clayton, Gumbel, Frank
    from copulas.errors import NotFittedError
    from copulas.multivariate import VineCopula
    bad = 0
    for call in (lambda: Clayton().sample(3), lambda: Frank().generator(np.array([.5])),
                 lambda: Gumbel().generator(np.array([.5])), lambda: VineCopula('regular').sample(2),
                 lambda: VineCopula('regular').get_likelihood(np.array([[.1, .2]]))):
        try:
            call(); bad += 1
        except NotFittedError:
            pass
        except Exception:
            bad += 1
    return bad > 0


def F11():
    from copulas.optimize import bisect
    lo, hi = np.zeros(3), np.full(3, 2.0)
    bisect(lambda x: x - 1.0, lo, hi)
    return not (lo == 0).all()


def F12():
    from copulas.visualization import scatter_2d
    cols = ['a', 'b']
    scatter_2d(pd.DataFrame({'a': [1., 2], 'b': [2., 3]}), columns=cols)
    return cols != ['a', 'b']


def F13():
    from copulas.multivariate.tree import get_tree
    rng = np.random.RandomState(0)
    X = pd.DataFrame(rng.uniform(size=(50, 3)))
    tau = X.corr(method='kendall').to_numpy().copy()
    keep = tau.copy()
    try:
        get_tree('center').fit(0, 3, tau, X.to_numpy())
    except Exception:
        pass
    return not np.array_equal(tau, keep, equal_nan=False)


def F15():
    from copulas.univariate import GaussianKDE
    k = GaussianKDE(); k.fit(np.random.RandomState(0).normal(size=50))
    try:
        k.log_probability_density(np.array([0.1]))
        return False
    except TypeError:
        return True


def F16():
    from copulas.bivariate import Gumbel
    g = Gumbel(); g.theta = 2.0; g.tau = 0.5
    try:
        g.percent_point(np.array([.3]), np.array([.4]))
        return False
    except TypeError:
        return True


def F17():
    from copulas.bivariate import Frank
    rng = np.random.RandomState(0)
    u = rng.uniform(size=200); v = np.clip(u + rng.normal(scale=.2, size=200), 0, 1)
    try:
        Frank().fit(np.column_stack([u, v]))
        return False
    except TypeError:
        return True


def _vine():
    from copulas.multivariate import VineCopula
    rng = np.random.RandomState(0)
    a = rng.normal(size=120)
    X = pd.DataFrame({'a': a, 'b': a + rng.normal(size=120), 'c': rng.normal(size=120) - a})
    v = VineCopula('regular', random_state=3); v.fit(X)
    return v, X


def F18():
    try:
        v, X = _vine()
        out = v.sample(3)
        return out.shape != (3, 3) or out.isna().any().any()
    except (ValueError, TypeError):
        return True


def F19():
    try:
        v, X = _vine()
        val = v.get_likelihood(np.array([[.3, .4, .6]]))
        return not np.isfinite(val)
    except (ValueError, TypeError):
        return True


def _gumbel1():
    from copulas.bivariate import Gumbel
    g = Gumbel(); g.theta = 1.0; g.tau = 0.0
    return g


def F20():
    X = np.array([[0.3, 0.7], [0.9, 0.2]])
    return not np.allclose(_gumbel1().partial_derivative(X), X[:, 0])


def F21():
    from copulas.bivariate.independence import Independence
    X = np.array([[0.3, 0.7], [0.9, 0.2]])
    return not np.allclose(Independence().partial_derivative(X), X[:, 0])


def F22():
    X = np.array([[0.3, 0.7], [0.9, 0.2]])
    return not np.allclose(_gumbel1().probability_density(X), 1.0)


def F23():
    from copulas.multivariate import VineCopula
    import warnings
    warnings.filterwarnings('ignore')
    bad = 0
    for seed in (1, 2, 4):
        rng = np.random.RandomState(seed)
        X = pd.DataFrame(rng.normal(size=(300, 5)) @ rng.normal(size=(5, 5)), columns=list('abcde'))
        v = VineCopula('direct', random_state=1); v.fit(X)
        for t in v.trees[1:]:
            for e in t.edges:
                p0 = e.parents[0]
                bad += e.L not in (p0.L, p0.R)
    return bad > 0


def F24():
    """Gumbel quantile at the corner of C08's range: the root lies below the lower bracket end EPSILON."""
    from copulas.bivariate import Gumbel
    import warnings
    warnings.filterwarnings('ignore')
    c = Gumbel()
    c.tau, c.theta = 0.8, 5.0
    try:
        c.percent_point(np.array([1e-4]), np.array([1e-4]))
    except ValueError as exc:
        return 'different signs' in str(exc)
    return False


def F25():
    """StudentT on constant data: the serialised location must be the constant."""
    from copulas.univariate import StudentTUnivariate, Univariate
    import warnings
    warnings.filterwarnings('ignore')
    m = StudentTUnivariate()
    m.fit(np.full(8, 1e6))
    m2 = Univariate.from_dict(m.to_dict())
    return m2.percent_point(np.array([0.5]))[0] != 1e6


ALL = ['F1', 'F2', 'F4', 'F5', 'F6', 'F8', 'F9', 'F11', 'F12', 'F13', 'F15', 'F16', 'F17', 'F18', 'F19', 'F20', 'F21', 'F22', 'F23', 'F24', 'F25']
if __name__ == '__main__':
    for name in (sys.argv[1:] or ALL):
        try:
            r = globals()[name]()
            print(name, 'DEFECT' if r else 'FIXED')
        except Exception as e:
            print(name, 'ERROR', type(e).__name__, str(e)[:100])
